// Exact scalar types used to instantiate the library under test.
//
//   vf::QP  permissive exact rational (implicit construction from built-in
//           numbers, abs, streaming, numeric_limits) - used by the engines.
//   vf::Q   strict archetype: exactly the operations Spline.h documents
//           (default/copy construction, explicit construction from int, + - * /
//           and compound forms, unary minus, six comparisons) - used by C19.
//
// Both wrap GMP rationals and carry a poison flag: a default-constructed value
// is "uninitialised"; any arithmetic or comparison that reads it is counted in
// vf::g_poison_reads (an exact uninitialised-read detector for T-typed storage).
#pragma once
#include <gmpxx.h>

#include <limits>
#include <cstdint>
#include <unordered_set>
#include <vector>
#include <ostream>
#include <string>
#include <type_traits>

namespace vf {

inline thread_local long g_poison_reads = 0;
struct from_mpq_t {};

#define VF_EXACT_COMMON(TYPE)                                                  \
  mpq_class v;                                                                 \
  bool p;                                                                      \
  TYPE() : v(0), p(true) {}                                                    \
  TYPE(from_mpq_t, const mpq_class &q) : v(q), p(false) {}                     \
  const mpq_class &rd() const {                                                \
    if (p) ++g_poison_reads;                                                   \
    return v;                                                                  \
  }                                                                            \
  TYPE &operator+=(const TYPE &o) {                                            \
    v = rd() + o.rd();                                                         \
    p = false;                                                                 \
    return *this;                                                              \
  }                                                                            \
  TYPE &operator-=(const TYPE &o) {                                            \
    v = rd() - o.rd();                                                         \
    p = false;                                                                 \
    return *this;                                                              \
  }                                                                            \
  TYPE &operator*=(const TYPE &o) {                                            \
    v = rd() * o.rd();                                                         \
    p = false;                                                                 \
    return *this;                                                              \
  }                                                                            \
  TYPE &operator/=(const TYPE &o) {                                            \
    const mpq_class &d = o.rd();                                               \
    if (d == 0) {                                                              \
      ++g_div_zero;                                                            \
      v = 0;                                                                   \
      (void)rd();                                                              \
    } else {                                                                   \
      v = rd() / d;                                                            \
    }                                                                          \
    p = false;                                                                 \
    return *this;                                                              \
  }                                                                            \
  friend TYPE operator+(const TYPE &a, const TYPE &b) {                        \
    TYPE r(a);                                                                 \
    r += b;                                                                    \
    return r;                                                                  \
  }                                                                            \
  friend TYPE operator-(const TYPE &a, const TYPE &b) {                        \
    TYPE r(a);                                                                 \
    r -= b;                                                                    \
    return r;                                                                  \
  }                                                                            \
  friend TYPE operator*(const TYPE &a, const TYPE &b) {                        \
    TYPE r(a);                                                                 \
    r *= b;                                                                    \
    return r;                                                                  \
  }                                                                            \
  friend TYPE operator/(const TYPE &a, const TYPE &b) {                        \
    TYPE r(a);                                                                 \
    r /= b;                                                                    \
    return r;                                                                  \
  }                                                                            \
  friend TYPE operator-(const TYPE &a) {                                       \
    return TYPE(from_mpq_t{}, -a.rd());                                        \
  }                                                                            \
  friend bool operator<(const TYPE &a, const TYPE &b) {                        \
    return a.rd() < b.rd();                                                    \
  }                                                                            \
  friend bool operator<=(const TYPE &a, const TYPE &b) {                       \
    return a.rd() <= b.rd();                                                   \
  }                                                                            \
  friend bool operator>(const TYPE &a, const TYPE &b) {                        \
    return a.rd() > b.rd();                                                    \
  }                                                                            \
  friend bool operator>=(const TYPE &a, const TYPE &b) {                       \
    return a.rd() >= b.rd();                                                   \
  }                                                                            \
  friend bool operator==(const TYPE &a, const TYPE &b) {                       \
    return a.rd() == b.rd();                                                   \
  }                                                                            \
  friend bool operator!=(const TYPE &a, const TYPE &b) {                       \
    return a.rd() != b.rd();                                                   \
  }

// Division by zero is outside every property statement; the harnesses never
// generate it. If the code under test divides by zero anyway it is counted
// (and reported by the harness) instead of raising SIGFPE inside GMP.
inline thread_local long g_div_zero = 0;

/// Strict archetype.
struct Q {
  VF_EXACT_COMMON(Q)
  explicit Q(int i) : v(i), p(false) {}
};

/// Permissive twin.
struct QP {
  VF_EXACT_COMMON(QP)
  template <class A, std::enable_if_t<std::is_arithmetic_v<A>, int> = 0>
  QP(A a) : p(false) {
    if constexpr (std::is_floating_point_v<A>)
      v = mpq_class(static_cast<double>(a));
    else if constexpr (std::is_signed_v<A>)
      v = mpq_class(static_cast<long>(a));
    else
      v = mpq_class(static_cast<unsigned long>(a));
  }
  friend QP abs(const QP &a) { return QP(from_mpq_t{}, ::abs(a.rd())); }
  friend std::ostream &operator<<(std::ostream &o, const QP &a) {
    return o << a.v.get_str();
  }
};

// ---- lazily evaluated archetype -----------------------------------------------
// vf::LQ offers the documented operations like vf::Q, but its binary operators and unary minus return light
// proxies that refer to their operands and are evaluated only when converted to LQ - the scheme of GMP's own
// mpq_class/mpf_class and of expression-template number types. Code that keeps such a result in `auto` or
// stores it by value for later use reads destroyed temporaries; every LQ and every proxy registers itself while
// alive, so that evaluating a proxy whose operand has died is detected deterministically (counted in
// g_dead_operand_reads, the operand reads as zero) instead of executing undefined behaviour.
inline thread_local long g_dead_operand_reads = 0;
struct LTag {};
inline std::unordered_set<const void *> &live_set() {
  static thread_local std::unordered_set<const void *> s;
  return s;
}
struct LNode : LTag {
  LNode() { live_set().insert(this); }
  LNode(const LNode &) { live_set().insert(this); }
  LNode &operator=(const LNode &) { return *this; }
  ~LNode() { live_set().erase(this); }
  bool alive() const { return live_set().count(this) > 0; }
};
template <class X>
inline constexpr bool is_l = std::is_base_of_v<LTag, X>;
struct LQ;
template <class X>
inline mpq_class leval(const X &x);
template <class L, class R, char OP>
struct LBin : LNode {
  const L &l;
  const R &r;
  LBin(const L &l_, const R &r_) : l(l_), r(r_) {}
  mpq_class eval() const {
    mpq_class a = leval(l), b = leval(r);
    if (OP == '+') return a + b;
    if (OP == '-') return a - b;
    if (OP == '*') return a * b;
    if (b == 0) { ++g_div_zero; return mpq_class(0); }
    return a / b;
  }
};
template <class A>
struct LNeg : LNode {
  const A &a;
  explicit LNeg(const A &a_) : a(a_) {}
  mpq_class eval() const { return -leval(a); }
};
struct LQ : LNode {
  mpq_class v;
  bool p;
  LQ() : v(0), p(true) {}
  LQ(from_mpq_t, const mpq_class &q) : v(q), p(false) {}
  explicit LQ(int i) : v(i), p(false) {}
  template <class L, class R, char OP>
  LQ(const LBin<L, R, OP> &e) : v(leval(e)), p(false) {}
  template <class A>
  LQ(const LNeg<A> &e) : v(leval(e)), p(false) {}
  mpq_class eval() const {
    if (p) ++g_poison_reads;
    return v;
  }
  template <class X, std::enable_if_t<is_l<X>, int> = 0>
  LQ &operator+=(const X &o) { v = eval() + leval(o); p = false; return *this; }
  template <class X, std::enable_if_t<is_l<X>, int> = 0>
  LQ &operator-=(const X &o) { v = eval() - leval(o); p = false; return *this; }
  template <class X, std::enable_if_t<is_l<X>, int> = 0>
  LQ &operator*=(const X &o) { v = eval() * leval(o); p = false; return *this; }
  template <class X, std::enable_if_t<is_l<X>, int> = 0>
  LQ &operator/=(const X &o) {
    mpq_class d = leval(o);
    if (d == 0) { ++g_div_zero; v = 0; } else v = eval() / d;
    p = false;
    return *this;
  }
};
template <class X>
inline mpq_class leval(const X &x) {
  if (!x.alive()) {
    ++g_dead_operand_reads;  // operand of a lazily evaluated result was destroyed before the result was used
    return mpq_class(0);
  }
  return x.eval();
}
#define VF_LBIN(OPC, OPS)                                                             \
  template <class L, class R, std::enable_if_t<is_l<L> && is_l<R>, int> = 0>          \
  inline LBin<L, R, OPC> operator OPS(const L &l, const R &r) {                       \
    return LBin<L, R, OPC>(l, r);                                                     \
  }
VF_LBIN('+', +)
VF_LBIN('-', -)
VF_LBIN('*', *)
VF_LBIN('/', /)
template <class A, std::enable_if_t<is_l<A>, int> = 0>
inline LNeg<A> operator-(const A &a) {
  return LNeg<A>(a);
}
#define VF_LCMP(OPS)                                                                  \
  template <class L, class R, std::enable_if_t<is_l<L> && is_l<R>, int> = 0>          \
  inline bool operator OPS(const L &l, const R &r) {                                  \
    return leval(l) OPS leval(r);                                                     \
  }
VF_LCMP(<)
VF_LCMP(<=)
VF_LCMP(>)
VF_LCMP(>=)
VF_LCMP(==)
VF_LCMP(!=)


// ---- trivially copyable archetype -------------------------------------------------
// vf::TQ offers the documented operations like vf::Q but is a 4-byte handle into an append-only (per-thread) table of
// exact rationals: it is trivially copyable and trivially destructible, so memcpy / memset / bitwise "optimisations"
// selected with std::is_trivially_copyable are taken with it - yet its value zero is NOT the all-zero bit pattern. The
// handle 0 (what memset(0) or a zero-filled buffer produces) is invalid; reading it, like reading a default-constructed
// value, is counted as a read of an uninitialised scalar.
struct TQ {
  uint32_t id;
  static std::vector<mpq_class> &tab() {
    static thread_local std::vector<mpq_class> t{mpq_class(0), mpq_class(0)};  // 0: invalid (all-zero bits), 1: default-constructed
    return t;
  }
  static uint32_t put(const mpq_class &q) {
    auto &t = tab();
    t.push_back(q);
    return (uint32_t)(t.size() - 1);
  }
  TQ() : id(1) {}
  explicit TQ(int i) : id(put(mpq_class(i))) {}
  TQ(from_mpq_t, const mpq_class &q) : id(put(q)) {}
  const mpq_class &rd() const {
    if (id < 2 || id >= tab().size()) { ++g_poison_reads; return tab()[0]; }
    return tab()[id];
  }
  TQ &operator+=(const TQ &o) { id = put(mpq_class(rd() + o.rd())); return *this; }
  TQ &operator-=(const TQ &o) { id = put(mpq_class(rd() - o.rd())); return *this; }
  TQ &operator*=(const TQ &o) { id = put(mpq_class(rd() * o.rd())); return *this; }
  TQ &operator/=(const TQ &o) {
    const mpq_class d = o.rd();
    if (d == 0) { ++g_div_zero; (void)rd(); id = put(mpq_class(0)); }
    else id = put(mpq_class(rd() / d));
    return *this;
  }
  friend TQ operator+(const TQ &a, const TQ &b) { TQ r(a); r += b; return r; }
  friend TQ operator-(const TQ &a, const TQ &b) { TQ r(a); r -= b; return r; }
  friend TQ operator*(const TQ &a, const TQ &b) { TQ r(a); r *= b; return r; }
  friend TQ operator/(const TQ &a, const TQ &b) { TQ r(a); r /= b; return r; }
  friend TQ operator-(const TQ &a) { return TQ(from_mpq_t{}, mpq_class(-a.rd())); }
  friend bool operator<(const TQ &a, const TQ &b) { return a.rd() < b.rd(); }
  friend bool operator<=(const TQ &a, const TQ &b) { return a.rd() <= b.rd(); }
  friend bool operator>(const TQ &a, const TQ &b) { return a.rd() > b.rd(); }
  friend bool operator>=(const TQ &a, const TQ &b) { return a.rd() >= b.rd(); }
  friend bool operator==(const TQ &a, const TQ &b) { return a.rd() == b.rd(); }
  friend bool operator!=(const TQ &a, const TQ &b) { return a.rd() != b.rd(); }
};
static_assert(std::is_trivially_copyable_v<TQ> && std::is_trivially_destructible_v<TQ> && !std::is_arithmetic_v<TQ>);

// ---- uniform access from harness code ------------------------------------
template <class S>
struct is_exact : std::false_type {};
template <>
struct is_exact<Q> : std::true_type {};
template <>
struct is_exact<QP> : std::true_type {};
template <>
struct is_exact<LQ> : std::true_type {};
template <>
struct is_exact<TQ> : std::true_type {};

template <class S>
inline S mk(const mpq_class &q) {
  if constexpr (is_exact<S>::value)
    return S(from_mpq_t{}, q);
  else
    return static_cast<S>(q.get_d());
}
template <class S>
inline S mki(long i) {
  return mk<S>(mpq_class(i));
}
template <class S>
inline mpq_class val(const S &s) {
  if constexpr (std::is_same_v<S, TQ>) {
    return s.rd();
  } else if constexpr (is_exact<S>::value) {
    if (s.p) ++g_poison_reads;
    return s.v;
  } else {
    return mpq_class(static_cast<double>(s));
  }
}
template <class S>
inline bool poisoned(const S &s) {
  if constexpr (std::is_same_v<S, TQ>)
    return s.id < 2;
  else if constexpr (is_exact<S>::value)
    return s.p;
  else
    return false;
}
inline std::string qs(const mpq_class &q) { return q.get_str(); }
inline mpq_class mq(long n, long d = 1) {
  mpq_class r(n, d);
  r.canonicalize();
  return r;
}
}  // namespace vf

namespace std {
template <>
class numeric_limits<vf::QP> {
 public:
  static constexpr bool is_specialized = true;
  static constexpr bool is_exact = true;
  static constexpr bool is_signed = true;
  static constexpr bool is_integer = false;
  static constexpr bool has_infinity = false;
  static constexpr bool has_quiet_NaN = false;
  static constexpr int digits = 0;
  static constexpr int digits10 = 0;
  static constexpr int max_digits10 = 0;
  static vf::QP epsilon() { return vf::QP(0); }
  static vf::QP min() { return vf::QP(0); }
  static vf::QP max() { return vf::QP(0); }
  static vf::QP lowest() { return vf::QP(0); }
};
}  // namespace std
