// Reference model: piecewise polynomials in the GLOBAL monomial basis over GMP
// rationals. Shares no code and no representation with the library (which
// stores coefficients about interval midpoints and integrates by Horner in the
// squared half width).
#pragma once
#include <gmpxx.h>

#include <map>
#include <memory>
#include <sstream>
#include <string>
#include <vector>

namespace vf {

using Poly = std::vector<mpq_class>;  // c[k] * x^k, no trailing zeros

inline void ptrim(Poly &p) {
  while (!p.empty() && p.back() == 0) p.pop_back();
}
inline Poly padd(const Poly &a, const Poly &b) {
  Poly r(std::max(a.size(), b.size()), mpq_class(0));
  for (size_t i = 0; i < a.size(); i++) r[i] += a[i];
  for (size_t i = 0; i < b.size(); i++) r[i] += b[i];
  ptrim(r);
  return r;
}
inline Poly pscale(const Poly &a, const mpq_class &c) {
  Poly r(a);
  for (auto &x : r) x *= c;
  ptrim(r);
  return r;
}
inline Poly psub(const Poly &a, const Poly &b) {
  return padd(a, pscale(b, mpq_class(-1)));
}
inline Poly pmul(const Poly &a, const Poly &b) {
  if (a.empty() || b.empty()) return {};
  Poly r(a.size() + b.size() - 1, mpq_class(0));
  for (size_t i = 0; i < a.size(); i++)
    for (size_t j = 0; j < b.size(); j++) r[i + j] += a[i] * b[j];
  ptrim(r);
  return r;
}
inline Poly pderiv(const Poly &a, size_t n = 1) {
  Poly r(a);
  for (size_t t = 0; t < n; t++) {
    if (r.empty()) break;
    Poly d(r.size() - 1);
    for (size_t k = 1; k < r.size(); k++) d[k - 1] = r[k] * mpq_class((long)k);
    r = d;
  }
  ptrim(r);
  return r;
}
inline Poly pmulx(const Poly &a, size_t n) {
  if (a.empty()) return {};
  Poly r(n, mpq_class(0));
  r.insert(r.end(), a.begin(), a.end());
  return r;
}
inline mpq_class peval(const Poly &a, const mpq_class &x) {
  mpq_class r(0), pw(1);
  for (size_t k = 0; k < a.size(); k++) {  // explicit powers, not Horner
    r += a[k] * pw;
    pw *= x;
  }
  return r;
}
inline Poly pantideriv(const Poly &a) {
  if (a.empty()) return {};
  Poly r(a.size() + 1, mpq_class(0));
  for (size_t k = 0; k < a.size(); k++) r[k + 1] = a[k] / mpq_class((long)(k + 1));
  return r;
}
inline mpq_class pinteg(const Poly &a, const mpq_class &lo, const mpq_class &hi) {
  Poly A = pantideriv(a);
  return peval(A, hi) - peval(A, lo);
}
/// sum_k c[k] (x - xm)^k expanded about 0 by repeated multiplication
inline Poly pexpand(const std::vector<mpq_class> &c, const mpq_class &xm) {
  Poly lin{-xm, mpq_class(1)};
  Poly pw{mpq_class(1)};
  Poly r;
  for (size_t k = 0; k < c.size(); k++) {
    r = padd(r, pscale(pw, c[k]));
    pw = pmul(pw, lin);
  }
  return r;
}
/// coefficients about xm of a global polynomial: c_k = p^(k)(xm)/k!
inline std::vector<mpq_class> pabout(const Poly &p, const mpq_class &xm, size_t n) {
  std::vector<mpq_class> r(n, mpq_class(0));
  Poly d = p;
  mpq_class fact(1);
  for (size_t k = 0; k < n; k++) {
    if (k > 0) fact *= mpq_class((long)k);
    r[k] = peval(d, xm) / fact;
    d = pderiv(d, 1);
  }
  return r;
}
inline std::string pstr(const Poly &p) {
  if (p.empty()) return "0";
  std::ostringstream o;
  for (size_t k = 0; k < p.size(); k++) {
    if (p[k] == 0) continue;
    if (o.tellp() > 0) o << " + ";
    o << "(" << p[k].get_str() << ")";
    if (k) o << "x^" << k;
  }
  return o.str();
}

/// Piecewise polynomial: absolute interval index -> polynomial. Zero pieces
/// are never stored, so two RefPP compare equal iff they denote the same
/// function on the (open) grid intervals.
struct RefPP {
  std::map<size_t, Poly> pc;
  void set(size_t i, Poly p) {
    ptrim(p);
    if (p.empty())
      pc.erase(i);
    else
      pc[i] = std::move(p);
  }
  const Poly &get(size_t i) const {
    static const Poly zero;
    auto it = pc.find(i);
    return it == pc.end() ? zero : it->second;
  }
  bool zero() const { return pc.empty(); }
  bool operator==(const RefPP &o) const { return pc == o.pc; }
  bool operator!=(const RefPP &o) const { return !(pc == o.pc); }
  std::string str() const {
    if (pc.empty()) return "{0}";
    std::ostringstream o;
    o << "{";
    for (auto &kv : pc) o << "[" << kv.first << "]: " << pstr(kv.second) << "; ";
    o << "}";
    return o.str();
  }
};

template <class F>
inline RefPP rmap2(const RefPP &a, const RefPP &b, F f) {
  RefPP r;
  for (auto &kv : a.pc) r.set(kv.first, f(kv.second, b.get(kv.first)));
  for (auto &kv : b.pc)
    if (!a.pc.count(kv.first)) r.set(kv.first, f(a.get(kv.first), kv.second));
  return r;
}
template <class F>
inline RefPP rmap1(const RefPP &a, F f) {
  RefPP r;
  for (auto &kv : a.pc) r.set(kv.first, f(kv.second, kv.first));
  return r;
}
inline RefPP radd(const RefPP &a, const RefPP &b) { return rmap2(a, b, padd); }
inline RefPP rsub(const RefPP &a, const RefPP &b) { return rmap2(a, b, psub); }
inline RefPP rmul(const RefPP &a, const RefPP &b) { return rmap2(a, b, pmul); }
inline RefPP rscale(const RefPP &a, const mpq_class &c) {
  return rmap1(a, [&](const Poly &p, size_t) { return pscale(p, c); });
}
inline RefPP rderiv(const RefPP &a, size_t n) {
  return rmap1(a, [&](const Poly &p, size_t) { return pderiv(p, n); });
}
inline RefPP rmulx(const RefPP &a, size_t n) {
  return rmap1(a, [&](const Poly &p, size_t) { return pmulx(p, n); });
}
/// integral over all stored intervals; grid gives the end points
inline mpq_class rinteg(const RefPP &a, const std::vector<mpq_class> &grid) {
  mpq_class r(0);
  for (auto &kv : a.pc) r += pinteg(kv.second, grid.at(kv.first), grid.at(kv.first + 1));
  return r;
}

// ---- operator-expression ASTs and their reference interpreter --------------
struct Ast;
using AstP = std::shared_ptr<const Ast>;
struct Ast {
  enum Kind { I, X, D, V, NEG, SCALE, DIV, PROD, SUM, DIFF } kind;
  size_t n = 0;       // X, D: power
  mpq_class c;        // SCALE, DIV: scalar (A+c is SUM(A, SCALE(c, I)) etc.)
  AstP a, b;          // children
  const RefPP *v = nullptr;  // V: factor spline (as reference function)
};
inline AstP aI() { auto p = std::make_shared<Ast>(); p->kind = Ast::I; return p; }
inline AstP aX(size_t n) { auto p = std::make_shared<Ast>(); p->kind = Ast::X; p->n = n; return p; }
inline AstP aD(size_t n) { auto p = std::make_shared<Ast>(); p->kind = Ast::D; p->n = n; return p; }
inline AstP aV(const RefPP *v) { auto p = std::make_shared<Ast>(); p->kind = Ast::V; p->v = v; return p; }
inline AstP aNeg(AstP a) { auto p = std::make_shared<Ast>(); p->kind = Ast::NEG; p->a = a; return p; }
inline AstP aScale(const mpq_class &c, AstP a) { auto p = std::make_shared<Ast>(); p->kind = Ast::SCALE; p->c = c; p->a = a; return p; }
inline AstP aDiv(AstP a, const mpq_class &c) { auto p = std::make_shared<Ast>(); p->kind = Ast::DIV; p->c = c; p->a = a; return p; }
inline AstP aProd(AstP a, AstP b) { auto p = std::make_shared<Ast>(); p->kind = Ast::PROD; p->a = a; p->b = b; return p; }
inline AstP aSum(AstP a, AstP b) { auto p = std::make_shared<Ast>(); p->kind = Ast::SUM; p->a = a; p->b = b; return p; }
inline AstP aDiff(AstP a, AstP b) { auto p = std::make_shared<Ast>(); p->kind = Ast::DIFF; p->a = a; p->b = b; return p; }
inline AstP aConst(const mpq_class &c) { return aScale(c, aI()); }

/// Apply the denoted differential expression to polynomial p living on
/// absolute interval `iv`.
inline Poly ref_apply(const Ast &e, const Poly &p, size_t iv) {
  switch (e.kind) {
    case Ast::I: return p;
    case Ast::X: return pmulx(p, e.n);
    case Ast::D: return pderiv(p, e.n);
    case Ast::V: return pmul(e.v->get(iv), p);
    case Ast::NEG: return pscale(ref_apply(*e.a, p, iv), mpq_class(-1));
    case Ast::SCALE: return pscale(ref_apply(*e.a, p, iv), e.c);
    case Ast::DIV: return pscale(ref_apply(*e.a, p, iv), mpq_class(1) / e.c);
    case Ast::PROD: return ref_apply(*e.a, ref_apply(*e.b, p, iv), iv);
    case Ast::SUM: return padd(ref_apply(*e.a, p, iv), ref_apply(*e.b, p, iv));
    case Ast::DIFF: return psub(ref_apply(*e.a, p, iv), ref_apply(*e.b, p, iv));
  }
  return {};
}
inline RefPP ref_apply(const Ast &e, const RefPP &s) {
  return rmap1(s, [&](const Poly &p, size_t iv) { return ref_apply(e, p, iv); });
}
inline bool ast_has_v(const Ast &e) {
  if (e.kind == Ast::V) return true;
  return (e.a && ast_has_v(*e.a)) || (e.b && ast_has_v(*e.b));
}

// ---- reference B-splines (Cox - de Boor on a knot vector) -----------------
/// B_{i,p} restricted to the grid interval [g_j, g_{j+1}] as a global
/// polynomial. `knots` non-decreasing, `grid` = distinct knot values.
inline Poly ref_bspline_piece(const std::vector<mpq_class> &knots, size_t i, size_t p,
                              const mpq_class &lo, const mpq_class &hi) {
  if (p == 0) {
    // indicator of [t_i, t_{i+1}) : non-zero on this grid interval iff it
    // lies inside a non-degenerate knot span
    if (knots[i] < knots[i + 1] && knots[i] <= lo && hi <= knots[i + 1]) return Poly{mpq_class(1)};
    return {};
  }
  Poly r;
  if (knots[i + p] > knots[i]) {
    mpq_class d = knots[i + p] - knots[i];
    Poly f{-knots[i] / d, mpq_class(1) / d};
    r = padd(r, pmul(f, ref_bspline_piece(knots, i, p - 1, lo, hi)));
  }
  if (knots[i + p + 1] > knots[i + 1]) {
    mpq_class d = knots[i + p + 1] - knots[i + 1];
    Poly f{knots[i + p + 1] / d, mpq_class(-1) / d};
    r = padd(r, pmul(f, ref_bspline_piece(knots, i + 1, p - 1, lo, hi)));
  }
  return r;
}
inline RefPP ref_bspline(const std::vector<mpq_class> &knots, const std::vector<mpq_class> &grid,
                         size_t i, size_t p) {
  RefPP r;
  for (size_t j = 0; j + 1 < grid.size(); j++)
    r.set(j, ref_bspline_piece(knots, i, p, grid[j], grid[j + 1]));
  return r;
}
}  // namespace vf
