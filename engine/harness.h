// Harness runtime shared by all check binaries: case numbering and sharding,
// violation / class / counter bookkeeping, crash handlers that name the case in
// flight, JSON result file for the driver (/verif/check).
#pragma once
#include <signal.h>
#include <unistd.h>

#include <chrono>
#include <cstdio>
#include <cstdlib>
#include <cstring>
#include <functional>
#include <map>
#include <set>
#include <sstream>
#include <string>
#include <unordered_set>
#include <vector>

#include "exact.h"
#ifdef VF_VALGRIND
#include <valgrind/valgrind.h>
#endif

namespace vf {

inline std::string jesc(const std::string &s) {
  std::string r;
  for (unsigned char c : s) {
    if (c == '"' || c == '\\') {
      r += '\\';
      r += (char)c;
    } else if (c == '\n') {
      r += "\\n";
    } else if (c < 0x20) {
      char b[8];
      snprintf(b, sizeof b, "\\u%04x", c);
      r += b;
    } else {
      r += (char)c;
    }
  }
  return r;
}

struct Violation {
  long idx;
  std::string key, desc, msg;
};

struct Harness;
inline Harness *g_H = nullptr;
inline thread_local char g_cur[4096];  // descriptor of the case in flight (for crash handlers; per thread)
inline thread_local long g_cur_idx = -1;
inline char g_crash_path[1024];

inline volatile int g_crash_noted = 0;
inline void crash_note(const char *what) {
  // async-signal-safe-ish: open/write only; the first note wins (a sanitizer
  // report is followed by abort())
  if (!g_crash_path[0] || g_crash_noted) return;
  g_crash_noted = 1;
  FILE *f = fopen(g_crash_path, "w");
  if (!f) return;
  fprintf(f, "%s\n%ld\n%s\n", what, g_cur_idx, g_cur);
  fclose(f);
  fprintf(stderr, "CRASH (%s) in case idx=%ld desc=%s\n", what, g_cur_idx, g_cur);
}
inline void crash_handler(int sig) {
  const char *n = sig == SIGSEGV ? "SIGSEGV" : sig == SIGABRT ? "SIGABRT" : sig == SIGFPE ? "SIGFPE" : sig == SIGBUS ? "SIGBUS" : sig == SIGILL ? "SIGILL" : "signal";
  crash_note(n);
  signal(sig, SIG_DFL);
  raise(sig);
}

struct Harness {
  std::string id, tier = "quick", out, variant = "";
  long shard = 0, nshards = 1, only = -1;
  long stride = 1;  // execute only every stride-th case of this shard (auxiliary slow detectors, e.g. under valgrind)
  long seed = 0;
  double deadline_s = 1e18;
  long idx = -1;          // global case number (same in every shard)
  long evaluations = 0;   // cases executed by this process
  long nontrivial = 0;    // executed cases that are non-trivial by the check's rule
  long nviol = 0;
  bool capped = false;
  bool in_case = false;
  long vg_errors_at_begin = 0;
  std::string cur;
  std::map<std::string, long> classes, counters;
  std::vector<Violation> violations;
  std::vector<std::string> samples;
  std::unordered_set<size_t> seen;  // hash of descriptors: distinctness is measured
  long duplicates = 0;
  std::chrono::steady_clock::time_point t0 = std::chrono::steady_clock::now();
  std::map<std::string, std::string> args;

  Harness(const char *id_, int argc, char **argv) : id(id_) {
    for (int i = 1; i < argc; i++) {
      std::string a = argv[i];
      auto val = [&]() -> std::string { return i + 1 < argc ? argv[++i] : ""; };
      if (a == "--tier") tier = val();
      else if (a == "--shard") { std::string s = val(); sscanf(s.c_str(), "%ld/%ld", &shard, &nshards); }
      else if (a == "--out") out = val();
      else if (a == "--case") only = atol(val().c_str());
      else if (a == "--seed") seed = atol(val().c_str());
      else if (a == "--stride") stride = std::max(1L, atol(val().c_str()));
      else if (a == "--deadline") deadline_s = atof(val().c_str());
      else if (a == "--variant") variant = val();
      else if (a.rfind("--", 0) == 0) args[a.substr(2)] = val();
    }
    g_H = this;
    if (!out.empty()) snprintf(g_crash_path, sizeof g_crash_path, "%s.crash", out.c_str());
    for (int s : {SIGSEGV, SIGABRT, SIGFPE, SIGBUS, SIGILL}) signal(s, crash_handler);
  }
  bool thorough() const { return tier == "thorough"; }
  double elapsed() const {
    return std::chrono::duration<double>(std::chrono::steady_clock::now() - t0).count();
  }
  /// Advance the case counter; true if this process has to execute the case.
  bool take() {
    ++idx;
    if (capped) return false;
    if (only >= 0) return idx == only;
    if (idx % nshards != shard) return false;
    if (stride > 1 && (idx / nshards) % stride != 0) return false;
    if ((evaluations & 0xff) == 0 && elapsed() > deadline_s) {
      capped = true;
      return false;
    }
    return true;
  }
  /// Same, for harnesses that partition work themselves (per-shard case numbers):
  /// `own` says whether this process executes the case in a normal run.
  bool take_if(bool own) {
    ++idx;
    if (capped) return false;
    if (only >= 0) return idx == only;
    if (!own) return false;
    if ((evaluations & 0xff) == 0 && elapsed() > deadline_s) {
      capped = true;
      return false;
    }
    return true;
  }
  void begin(const std::string &desc) {
    cur = desc;
    g_cur_idx = idx;
    strncpy(g_cur, desc.c_str(), sizeof g_cur - 1);
    evaluations++;
    in_case = true;
#ifdef VF_VALGRIND
    vg_errors_at_begin = (long)VALGRIND_COUNT_ERRORS;
#endif
    g_poison_reads = 0;
    g_div_zero = 0;
    g_dead_operand_reads = 0;
    size_t h = std::hash<std::string>{}(desc);
    if (!seen.insert(h).second) duplicates++;
    if (samples.size() < 3 || (samples.size() < 8 && ((size_t)(idx * 2654435761u + seed * 40503u) % 9973u) == 0)) samples.push_back(desc);
    if (only >= 0) fprintf(stderr, "[case %ld] %s\n", idx, desc.c_str());
  }
  void fail(const std::string &key, const std::string &msg) {
    nviol++;
    if (violations.size() < 40) violations.push_back({idx, key, cur, msg});
    if (only >= 0) fprintf(stderr, "  VIOLATION key=%s %s\n", key.c_str(), msg.c_str());
  }
  /// call at the end of each case: reports poison / division-by-zero counters
  void end() {
#ifdef VF_VALGRIND
    {
      long now = (long)VALGRIND_COUNT_ERRORS;
      if (now > vg_errors_at_begin) fail("valgrind", "memcheck reported " + std::to_string(now - vg_errors_at_begin) + " error(s) (use of uninitialised values / invalid access) while this case ran");
    }
#endif
    if (g_poison_reads) fail("uninit", "read of " + std::to_string(g_poison_reads) + " uninitialised (default-constructed) scalar value(s)");
    if (g_div_zero) fail("divzero", "division by zero inside the code under test");
    if (g_dead_operand_reads) fail("lazy-dangling", "a lazily evaluated scalar expression was used after " + std::to_string(g_dead_operand_reads) + " of its operands had been destroyed (result kept in `auto` or stored by value past the full expression)");
    g_dead_operand_reads = 0;
    g_poison_reads = 0;
    g_div_zero = 0;
    in_case = false;
  }
  void nontriv() { nontrivial++; }
  void cls(const std::string &c) { classes[c]++; }
  void count(const std::string &c, long n = 1) { counters[c] += n; }

  int finish() {
    g_cur_idx = -1;
    strcpy(g_cur, "(after last case)");
    if (out.empty()) {
      fprintf(stderr, "%s %s shard %ld/%ld: cases=%ld executed=%ld nontrivial=%ld violations=%ld capped=%d %.2fs\n", id.c_str(), tier.c_str(), shard, nshards, idx + 1, evaluations, nontrivial, nviol, (int)capped, elapsed());
      for (auto &v : violations) fprintf(stderr, "  VIOL idx=%ld key=%s desc=%s :: %s\n", v.idx, v.key.c_str(), v.desc.c_str(), v.msg.c_str());
      for (auto &c : counters) fprintf(stderr, "  counter %s=%ld\n", c.first.c_str(), c.second);
      fprintf(stderr, "  classes=%zu\n", classes.size());
      return nviol ? 1 : 0;
    }
    FILE *f = fopen(out.c_str(), "w");
    if (!f) { perror("out"); return 3; }
    fprintf(f, "{\"id\":\"%s\",\"tier\":\"%s\",\"variant\":\"%s\",\"shard\":%ld,\"nshards\":%ld,\n", id.c_str(), tier.c_str(), jesc(variant).c_str(), shard, nshards);
    fprintf(f, "\"total_cases\":%ld,\"evaluations\":%ld,\"nontrivial\":%ld,\"duplicates\":%ld,\"nviol\":%ld,\"capped\":%s,\"wall_s\":%.3f,\n", idx + 1, evaluations, nontrivial, duplicates, nviol, capped ? "true" : "false", elapsed());
    fprintf(f, "\"classes\":{");
    bool first = true;
    for (auto &c : classes) { fprintf(f, "%s\"%s\":%ld", first ? "" : ",", jesc(c.first).c_str(), c.second); first = false; }
    fprintf(f, "},\n\"counters\":{");
    first = true;
    for (auto &c : counters) { fprintf(f, "%s\"%s\":%ld", first ? "" : ",", jesc(c.first).c_str(), c.second); first = false; }
    fprintf(f, "},\n\"samples\":[");
    first = true;
    for (auto &s : samples) { fprintf(f, "%s\"%s\"", first ? "" : ",", jesc(s).c_str()); first = false; }
    fprintf(f, "],\n\"violations\":[");
    first = true;
    for (auto &v : violations) {
      fprintf(f, "%s{\"idx\":%ld,\"key\":\"%s\",\"desc\":\"%s\",\"msg\":\"%s\"}", first ? "" : ",\n", v.idx, jesc(v.key).c_str(), jesc(v.desc).c_str(), jesc(v.msg).c_str());
      first = false;
    }
    fprintf(f, "]}\n");
    fclose(f);
    return 0;  // violations are reported through the file; the driver decides the exit code
  }
};

// ---- exception discipline -------------------------------------------------
enum class Out { VALUE, BSPLINE_EXC, OTHER_EXC };
struct Outcome {
  Out o = Out::VALUE;
  int code = -1;  // ErrorCode as int for BSPLINE_EXC
  std::string what;
  bool threw() const { return o != Out::VALUE; }
  std::string str() const {
    if (o == Out::VALUE) return "value";
    if (o == Out::BSPLINE_EXC) return "BSplineException(code " + std::to_string(code) + ")";
    return "foreign exception: " + what;
  }
};
}  // namespace vf

// ASan calls this (weak default in the runtime) before printing its report.
#ifndef VF_NO_ASAN_HOOK
extern "C" __attribute__((used)) void __asan_on_error() { vf::crash_note("AddressSanitizer"); }
#endif
