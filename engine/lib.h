// Binding between the library under test and the reference model: alphabets
// (grids, windows, coefficient patterns), builders, the abstraction function
// alpha(Spline) -> RefPP (public API only), exception capture.
#pragma once
#include <bspline/Core.h>

#include <array>
#include <string>
#include <vector>

#include "exact.h"
#include "harness.h"
#include "refpp.h"

namespace vf {
using bspline::Spline;
using bspline::exceptions::BSplineException;
using bspline::exceptions::ErrorCode;
using bspline::support::Grid;
using bspline::support::Support;

// scalar used by the engines: the permissive exact rational, or (C19, -DVF_STRICT) the strict archetype
#if defined(VF_TRIV)
using DefaultScalar = TQ;
#elif defined(VF_LAZY)
using DefaultScalar = LQ;
#elif defined(VF_STRICT)
using DefaultScalar = Q;
#else
using DefaultScalar = QP;
#endif

// ---- grids -------------------------------------------------------------
inline std::vector<mpq_class> grid_family(const std::string &fam, size_t n) {
  static const std::vector<mpq_class> NU = {mq(-3), mq(-2), mq(0), mq(1, 2), mq(5), mq(6), mq(13, 2), mq(9), mq(21, 2), mq(12)};
  std::vector<mpq_class> r;
  if (fam == "uni") {
    for (size_t i = 0; i < n; i++) r.push_back(mq((long)i));
  } else if (fam == "nonuni") {
    for (size_t i = 0; i < n; i++) r.push_back(NU.at(i));
  } else if (fam == "far") {
    for (size_t i = 0; i < n; i++) r.push_back(NU.at(i) + 100);
  } else if (fam == "neg") {
    for (size_t i = 0; i < n; i++) r.push_back(-NU.at(n - 1 - i));
  } else if (fam == "sym") {
    // contains an interval centred exactly at the origin ([-1, 1]) and one ending at it is absent: fast paths
    // keyed on a zero midpoint are only visible here
    static const std::vector<mpq_class> SY = {mq(-4), mq(-5, 2), mq(-1), mq(1), mq(7, 4), mq(3), mq(9, 2), mq(6), mq(15, 2), mq(8)};
    for (size_t i = 0; i < n; i++) r.push_back(SY.at(i));
  } else if (fam == "dyad") {
    static const std::vector<mpq_class> DY = {mq(-8), mq(-63, 8), mq(-4), mq(-1, 8), mq(0), mq(1, 8), mq(1), mq(7, 2), mq(63, 8), mq(8)};
    for (size_t i = 0; i < n; i++) r.push_back(DY.at(i));
  } else {
    fprintf(stderr, "unknown grid family %s\n", fam.c_str());
    abort();
  }
  return r;
}
template <class S>
inline std::vector<S> to_s(const std::vector<mpq_class> &v) {
  std::vector<S> r;
  r.reserve(v.size());
  for (auto &x : v) r.push_back(mk<S>(x));
  return r;
}
template <class S>
inline Grid<S> mkgrid(const std::vector<mpq_class> &pts) {
  return Grid<S>(to_s<S>(pts));
}
template <class S>
inline std::vector<mpq_class> gridpts(const Grid<S> &g) {
  std::vector<mpq_class> r;
  for (size_t i = 0; i < g.size(); i++) r.push_back(val(g[i]));
  return r;
}
inline std::string vstr(const std::vector<mpq_class> &v) {
  std::string r = "[";
  for (size_t i = 0; i < v.size(); i++) r += (i ? "," : "") + v[i].get_str();
  return r + "]";
}

// ---- windows -----------------------------------------------------------
struct Win {
  size_t s = 0, e = 0;
  size_t size() const { return e - s; }
  size_t nint() const { return e - s > 0 ? e - s - 1 : 0; }
  bool empty() const { return e == s; }
  const char *kind() const { return e == s ? "empty" : (e - s == 1 ? "point" : "interval"); }
  bool operator==(const Win &o) const { return s == o.s && e == o.e; }
};
inline std::string wstr(Win w) { return "w(" + std::to_string(w.s) + "," + std::to_string(w.e) + ")"; }
/// (0,0) plus all (s,e) with 0 <= s < e <= n: includes point-like windows
inline std::vector<Win> windows(size_t n) {
  std::vector<Win> r{{0, 0}};
  for (size_t s = 0; s < n; s++)
    for (size_t e = s + 1; e <= n; e++) r.push_back({s, e});
  return r;
}
/// Allen relation of the closed point ranges [s, e-1] (13 relations), tagged
/// with the kinds of both windows.
inline std::string allen(Win a, Win b) {
  std::string k = std::string(a.kind()) + "x" + b.kind() + ":";
  if (a.empty() || b.empty()) return k + "n/a";
  long af = a.s, al = a.e - 1, bf = b.s, bl = b.e - 1;
  const char *r;
  if (al < bf) r = "before";
  else if (bl < af) r = "after";
  else if (af == bf && al == bl) r = "equal";
  else if (al == bf && af < bf) r = "meets";
  else if (bl == af && bf < af) r = "met-by";
  else if (af == bf) r = al < bl ? "starts" : "started-by";
  else if (al == bl) r = af > bf ? "finishes" : "finished-by";
  else if (af < bf && al > bl) r = "contains";
  else if (bf < af && bl > al) r = "during";
  else if (af < bf) r = "overlaps";
  else r = "overlapped-by";
  return k + r;
}

// ---- coefficient patterns ---------------------------------------------
inline const std::vector<long> &primes() {
  static const std::vector<long> P = {2, 3, 5, 7, 11, 13, 17, 19, 23, 29, 31, 37, 41, 43, 47, 53, 59, 61, 67, 71, 73, 79, 83, 89, 97, 101, 103, 107, 109, 113, 127, 131, 137, 139, 149, 151, 157, 163, 167, 173, 179, 181, 191, 193, 197, 199, 211, 223, 227, 229, 233, 239, 241, 251};
  return P;
}
/// patterns for K scalar slots: K unit vectors, zero, two generic vectors
inline size_t npatterns(size_t K) { return K == 0 ? 1 : K + 3; }
inline std::vector<mpq_class> pattern(size_t K, size_t p) {
  std::vector<mpq_class> r(K, mpq_class(0));
  if (K == 0) return r;
  if (p < K) {
    r[p] = 1;
  } else if (p == K) {
  } else if (p == K + 1) {
    for (size_t k = 0; k < K; k++) r[k] = mq((k % 2 ? -1 : 1) * primes().at(k % 50));
  } else {
    for (size_t k = 0; k < K; k++) r[k] = mq((k % 3 == 0 ? -1 : 1) * primes().at((k + 17) % 50), 3);
  }
  return r;
}
inline std::string pname(size_t K, size_t p) {
  if (K == 0) return "none";
  if (p < K) return "unit" + std::to_string(p);
  if (p == K) return "zero";
  return p == K + 1 ? "gen1" : "gen2";
}
/// reduced pattern list for pair enumerations: all units + zero + gen1 (+gen2)
inline bool pattern_nonzero(size_t K, size_t p) { return K > 0 && p != K; }

// ---- builders ------------------------------------------------------------
template <class S, size_t o>
inline Spline<S, o> mkspline(const Grid<S> &g, Win w, const std::vector<mpq_class> &flat) {
  std::vector<std::array<S, o + 1>> c(w.nint());
  for (size_t i = 0; i < w.nint(); i++)
    for (size_t k = 0; k <= o; k++) c[i][k] = mk<S>(flat.at(i * (o + 1) + k));
  return Spline<S, o>(Support<S>(g, w.s, w.e), std::move(c));
}
template <class S, size_t o>
inline Spline<S, o> mkspline_p(const Grid<S> &g, Win w, size_t p) {
  return mkspline<S, o>(g, w, pattern(w.nint() * (o + 1), p));
}

/// Abstraction function. Uses only public accessors. If the object violates
/// its own invariant (coefficient count != interval count) `ok` is cleared.
template <class S, size_t o>
inline RefPP alpha(const Spline<S, o> &s, bool *ok = nullptr) {
  RefPP r;
  const auto &sup = s.getSupport();
  const auto &cs = s.getCoefficients();
  size_t st = sup.getStartIndex(), en = sup.getEndIndex();
  size_t nint = en > st ? en - st - 1 : 0;
  if (ok) *ok = (cs.size() == nint) && en <= sup.getGrid().size();
  if (cs.size() != nint || en > sup.getGrid().size()) return r;
  for (size_t i = 0; i < nint; i++) {
    mpq_class lo = val(sup.getGrid()[st + i]), hi = val(sup.getGrid()[st + i + 1]);
    mpq_class xm = (lo + hi) / 2;
    std::vector<mpq_class> c;
    for (size_t k = 0; k <= o; k++) c.push_back(val(cs[i][k]));
    r.set(st + i, pexpand(c, xm));
  }
  return r;
}
template <class S, size_t o>
inline std::string dump(const Spline<S, o> &s) {
  std::string r = "Spline<" + std::to_string(o) + ">[" + std::to_string(s.getSupport().getStartIndex()) + "," + std::to_string(s.getSupport().getEndIndex()) + ")";
  for (auto &a : s.getCoefficients()) {
    r += " (";
    for (size_t k = 0; k <= o; k++) r += (k ? "," : "") + (poisoned(a[k]) ? std::string("UNINIT") : val(a[k]).get_str());
    r += ")";
  }
  return r;
}

// ---- exception discipline -----------------------------------------------
template <class F>
inline Outcome attempt(F &&f) {
  Outcome r;
  try {
    f();
  } catch (const BSplineException &e) {
    r.o = Out::BSPLINE_EXC;
    r.code = (int)e.getErrorCode();
    r.what = e.what();
  } catch (const std::exception &e) {
    r.o = Out::OTHER_EXC;
    r.what = e.what();
  } catch (...) {
    r.o = Out::OTHER_EXC;
    r.what = "non-std exception";
  }
  return r;
}

// ---- order dispatch --------------------------------------------------------
template <size_t Max, class F>
inline void with_order(size_t o, F &&f) {
  if constexpr (Max == 0) {
    (void)o;
    f(std::integral_constant<size_t, 0>{});
  } else {
    if (o == Max)
      f(std::integral_constant<size_t, Max>{});
    else
      with_order<Max - 1>(o, f);
  }
}
}  // namespace vf
