#!/usr/bin/env python3
"""Regenerates /verif/MANIFEST.json from driver/cfg.py so the two cannot drift."""
import json, os, sys
sys.path.insert(0, os.path.dirname(os.path.abspath(__file__)))
from cfg import CHECKS, NOT_APPLICABLE, ENGINES
VERIF = os.path.dirname(os.path.dirname(os.path.abspath(__file__)))
props = [json.loads(l) for l in open(os.path.join(VERIF, 'properties.jsonl'))]
checks = []
for p in props:
    cid = p['id']
    if cid not in CHECKS or CHECKS[cid].get('unregistered'):
        continue
    c = CHECKS[cid]
    checks.append(dict(
        property_id=cid,
        quick_cmd='./check %s quick' % cid,
        thorough_cmd='./check %s thorough' % cid,
        evidence_file='/verif/evidence/%s.json' % cid,
        replay_cmd_template='./check replay {path}',
        engine=c.get('engine', 'E1 input enumerator'),
        level_claimed=dict(category=c['level'], text=c['level_text'], design_ref=c.get('design_ref', 'DESIGN.md 3 ' + cid)),
        level_note=c['level_note'],
        technique=c['technique'],
    ))
na = [dict(property_id=p['id'], reason=NOT_APPLICABLE.get(p['id'], 'check not built yet (work in progress; designed in DESIGN.md 3)'))
      for p in props if p['id'] not in [c['property_id'] for c in checks]]
m = dict(
    version=1,
    setup_cmd='./check setup',
    hooks=dict(guard='BSPLINE_VERIF_HOOKS', enable='no source hooks are used: the checks compile the unmodified headers of /repo (or $VERIF_REPO) into their own drivers',
               baseline_off_cmd='cmake --build /repo/_build -j16 && /repo/_build/tests/test',
               source_commits=[], add_only=True),
    engines=ENGINES,
    checks=checks,
    notes='All checks are bounded-exhaustive explorations of the real headers against an exact reference (see DESIGN.md): inputs (E1), programs (E2), '
          'object histories (E3), schedules (E4), call sequences on long-lived objects with owned allocator (E5), single-fault positions (E6). '
          'Repairs of genuine defects (nine "fix:" commits in /repo) are listed in KNOWN_FINDINGS.txt (fixed: lines); no known: entries.',
    not_applicable=na,
)
json.dump(m, open(os.path.join(VERIF, 'MANIFEST.json'), 'w'), indent=1)
print('MANIFEST.json: %d checks, %d not claimed' % (len(checks), len(na)))
