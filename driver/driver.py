import os, sys, json, hashlib, subprocess, time, shutil, glob, re, signal, threading
from concurrent.futures import ThreadPoolExecutor

VERIF = os.path.dirname(os.path.dirname(os.path.abspath(__file__)))
REPO = os.environ.get('VERIF_REPO', '/repo')
ALT = os.path.realpath(REPO) != '/repo'   # mutant self-test: keep build cache and evidence of the real tree untouched
BUILD = os.path.join(VERIF, 'build', os.environ.get('VERIF_ALT_NAME', 'alt')) if ALT else os.path.join(VERIF, 'build')   # VERIF_ALT_NAME: several mutant runs side by side
EVDIR = os.path.join(BUILD, 'evidence') if ALT else os.path.join(VERIF, 'evidence')
NCPU = int(os.environ.get('VERIF_JOBS', '16'))
CXX = os.environ.get('VERIF_CXX', 'g++')

MODES = {
    'exact': ['-O1'],
    'o0': ['-O0'],
    'raw': [],
    'chk': ['-O1', '-DBSPLINE_ADD_TEST_CHECKS', '-DVF_CHK'],
    'san': ['-O1', '-g', '-fsanitize=address,undefined', '-fno-sanitize-recover=undefined',
            '-fno-omit-frame-pointer', '-D_GLIBCXX_DEBUG', '-DVF_SAN'],
}
LIBS = ['-lgmpxx', '-lgmp', '-lpthread']
SAN_ENV = {
    'ASAN_OPTIONS': 'detect_leaks=0:halt_on_error=1:abort_on_error=1:allocator_may_return_null=1:detect_stack_use_after_return=1',
    'UBSAN_OPTIONS': 'print_stacktrace=1:halt_on_error=1:abort_on_error=1',
}


def base_flags():
    return ['-std=c++17', '-I', os.path.join(REPO, 'include'), '-I', os.path.join(VERIF, 'engine'),
            '-I', os.path.join(VERIF, 'checks'), '-I', os.path.join(VERIF, 'sched'), '-Wall', '-Wno-unused', '-Wno-sign-compare', '-fmax-errors=5']


def unit(name, src, mode='exact', shards=NCPU, args=None, flags=None, libs=None, cxx=None, env=None, kind='harness', group=None):
    return dict(name=name, src=src, mode=mode, shards=shards, args=args or [], flags=flags or [],
                libs=libs or [], cxx=cxx, env=env or {}, kind=kind, group=group)


_tree_hash = {}


def tree_hash(dirs):
    key = tuple(dirs)
    if key in _tree_hash:
        return _tree_hash[key]
    h = hashlib.sha256()
    for d in dirs:
        if os.path.isfile(d):
            h.update(d.encode()); h.update(open(d, 'rb').read()); continue
        for root, dn, fn in sorted(os.walk(d)):
            dn.sort()
            for f in sorted(fn):
                p = os.path.join(root, f)
                h.update(p.encode())
                try:
                    h.update(open(p, 'rb').read())
                except OSError:
                    pass
    _tree_hash[key] = h.hexdigest()
    return _tree_hash[key]


def src_path(u):
    s = u['src']
    return s if os.path.isabs(s) else os.path.join(VERIF, s)


def unit_cmd(cid, u):
    odir = os.path.join(BUILD, cid, u.get('bindir') or u['name'])   # bindir: units that differ only in run-time arguments share one binary
    binp = os.path.join(odir, 'bin')
    cxx = u['cxx'] or CXX
    srcs = u['src'] if isinstance(u['src'], list) else [u['src']]
    srcs = [(s['path'] if isinstance(s, dict) else s) for s in srcs]
    srcs = [s if os.path.isabs(s) else os.path.join(VERIF, s) for s in srcs]
    cmd = [cxx] + base_flags() + MODES[u['mode']] + u['flags'] + srcs + ['-o', binp] + LIBS + u['libs']
    return odir, binp, cmd, srcs


def build_unit(cid, u):
    """returns (ok, log)"""
    odir, binp, cmd, srcs = unit_cmd(cid, u)
    os.makedirs(odir, exist_ok=True)
    deps = [os.path.join(REPO, 'include'), os.path.join(REPO, 'examples'), os.path.join(VERIF, 'engine'),
            os.path.join(VERIF, 'checks'), os.path.join(VERIF, 'sched')] + [s for s in srcs if not s.startswith(os.path.join(VERIF, 'checks'))]
    hv = hashlib.sha256((tree_hash(deps) + ' '.join(cmd)).encode()).hexdigest()
    hp = os.path.join(odir, 'hash')
    if os.path.exists(binp) and os.path.exists(hp) and open(hp).read() == hv:
        return True, 'cached'
    for f in (binp, hp):
        if os.path.exists(f):
            os.remove(f)
    t = time.time()
    if len(srcs) > 1:
        # several translation units: compile the objects in parallel, then link
        cxx = u['cxx'] or CXX
        cflags = base_flags() + MODES[u['mode']] + u['flags']
        objs = [os.path.join(odir, os.path.basename(sp) + '.o') for sp in srcs]
        specs = u['src']
        def cc(i):
            sp = specs[i] if isinstance(specs[i], dict) else {}
            c = sp.get('cxx') or cxx
            fl = (base_flags() if not sp.get('c') else ['-I', os.path.join(VERIF, 'sched')]) + MODES[u['mode']] + u['flags'] + sp.get('flags', [])
            return subprocess.run([c] + fl + ['-c', srcs[i], '-o', objs[i]], stdout=subprocess.PIPE, stderr=subprocess.STDOUT, text=True)
        with ThreadPoolExecutor(len(srcs)) as ex:
            rs = list(ex.map(cc, range(len(srcs))))
        log = ''.join(r.stdout for r in rs)
        rc = max(r.returncode for r in rs)
        if rc == 0:
            lk = subprocess.run([cxx] + MODES[u['mode']] + u.get('ldflags', u['flags']) + objs + ['-o', binp] + LIBS + u['libs'], stdout=subprocess.PIPE, stderr=subprocess.STDOUT, text=True)
            log += lk.stdout
            rc = lk.returncode
        class P: pass
        p = P(); p.returncode = rc; p.stdout = log
    else:
        p = subprocess.run(cmd, stdout=subprocess.PIPE, stderr=subprocess.STDOUT, text=True)
    log = p.stdout
    open(os.path.join(odir, 'build.log'), 'w').write(' '.join(cmd) + '\n' + log)
    if p.returncode != 0:
        return False, log
    open(hp, 'w').write(hv)
    return True, 'built in %.1fs' % (time.time() - t)


def build_units(cid, units):
    first = {}   # one build per output directory (units sharing a bindir share the binary)
    for u in units:
        first.setdefault(unit_cmd(cid, u)[0], u)
    todo = list(first.values())
    with ThreadPoolExecutor(NCPU) as ex:
        res = dict(zip([unit_cmd(cid, u)[0] for u in todo], ex.map(lambda u: build_unit(cid, u), todo)))
    bad = [(u, res[unit_cmd(cid, u)[0]][1]) for u in units if not res[unit_cmd(cid, u)[0]][0]]
    return bad


def run_proc(cmd, env, timeout, outfile):
    """run one shard; returns dict(status=..., rc=..., stderr=...)"""
    for f in (outfile, outfile + '.crash'):
        if os.path.exists(f):
            os.remove(f)
    e = dict(os.environ)
    e.update(env)
    try:
        p = subprocess.Popen(cmd, stdout=subprocess.PIPE, stderr=subprocess.PIPE, env=e, text=True, errors='replace')
        try:
            so, se = p.communicate(timeout=timeout)
        except subprocess.TimeoutExpired:
            p.send_signal(signal.SIGTERM)
            try:
                so, se = p.communicate(timeout=5)
            except subprocess.TimeoutExpired:
                p.kill()
                so, se = p.communicate()
            return dict(status='timeout', rc=None, stderr=se[-4000:], stdout=so[-2000:])
        return dict(status='exit', rc=p.returncode, stderr=se[-6000:], stdout=so[-2000:])
    except OSError as ex:
        return dict(status='oserror', rc=None, stderr=str(ex), stdout='')


def load_known():
    known, fixed = [], []
    p = os.path.join(VERIF, 'KNOWN_FINDINGS.txt')
    if os.path.exists(p):
        for line in open(p):
            line = line.strip()
            m = re.match(r'known:\s+property=(\S+)\s+key=(\S+)\s+(.*)', line)
            if m:
                known.append(dict(prop=m.group(1), key=m.group(2), text=m.group(3)))
            elif line.startswith('fixed:'):
                fixed.append(line)
    return known, fixed


def write_evidence(cid, ev):
    os.makedirs(EVDIR, exist_ok=True)
    p = os.path.join(EVDIR, cid + '.json')
    tmp = p + '.tmp'
    json.dump(ev, open(tmp, 'w'), indent=1, sort_keys=False)
    os.replace(tmp, p)


def next_replay_path(cid):
    d = os.path.join(VERIF, 'replays')
    os.makedirs(d, exist_ok=True)
    n = 0
    while os.path.exists(os.path.join(d, '%s-%d.json' % (cid, n))):
        n += 1
    return os.path.join(d, '%s-%d.json' % (cid, n))


def run_check(cid, tier, cfg):
    t0 = time.time()
    seed = int(os.environ.get('VERIF_SEED', '0') or 0)
    deadline = cfg.get('deadline', {}).get(tier, 600 if tier == 'quick' else 2700)
    units = cfg['units'](tier)
    # custom pre-step (code generation etc.)
    bad = build_units(cid, units)
    if bad:
        # A harness that no longer builds against the tree is not a verdict,
        # unless the check says compile failure is the violation (C19).
        hard = [(u, log) for u, log in bad if u.get('kind') != 'compile_is_verdict']
        soft = [(u, log) for u, log in bad if u.get('kind') == 'compile_is_verdict']
        for u, log in hard:
            print('INCONCLUSIVE: harness build failed for unit %s of %s\n%s' % (u['name'], cid, log[-3000:]))
        if hard:
            return 2
        units = [u for u in units if u not in [b[0] for b in soft]]
    else:
        soft = []

    # run all shards of all units, NCPU at a time
    jobs = []
    for u in units:
        odir, binp, _, _ = unit_cmd(cid, u)
        for k in range(u['shards']):
            out = os.path.join(odir, 'out.%s.%d.json' % (u['name'], k))
            cmd = u.get('wrap', []) + [binp, '--tier', tier, '--shard', '%d/%d' % (k, u['shards']), '--out', out, '--seed', str(seed),
                   '--deadline', 'REMAINING', '--variant', u['name']] + u['args']
            env = dict(SAN_ENV) if u['mode'] == 'san' else {}
            env.update(u['env'])
            jobs.append((u, k, cmd, env, out))
    t_end = t0 + deadline   # one global deadline for the whole command: a job started late gets what is left

    def start(j):
        left = max(5.0, t_end - time.time())
        return run_proc([('%.0f' % left) if a == 'REMAINING' else a for a in j[2]], j[3], left + 120, j[4])
    with ThreadPoolExecutor(NCPU) as ex:
        results = list(ex.map(start, jobs))

    tot = dict(evaluations=0, nontrivial=0, total_cases={}, duplicates=0, capped=False)
    classes, counters, samples, viols = {}, {}, [], []
    inconclusive = []
    per_unit = {}  # units built from the same source with the same arguments run the same cases in another
    # build configuration: they are counted once in distinct_nontrivial (max over the group)
    for (u, k, cmd, env, out), r in zip(jobs, results):
        data = None
        if os.path.exists(out):
            try:
                data = json.load(open(out))
            except Exception as ex:
                data = None
        crash = None
        if os.path.exists(out + '.crash'):
            lines = open(out + '.crash').read().split('\n')
            crash = dict(what=lines[0], idx=int(lines[1]) if len(lines) > 1 and lines[1].lstrip('-').isdigit() else -1,
                         desc='\n'.join(lines[2:]).strip())
        if r['status'] == 'timeout':
            tot['capped'] = True
            inconclusive.append('unit %s shard %d hit the process time limit (in flight: %s)' % (u['name'], k, crash and crash['desc']))
            continue
        if data is None:
            if crash and (crash['idx'] >= 0 or (crash['desc'] and not crash['desc'].startswith('(after'))):
                viols.append(dict(unit=u['name'], shard='%d/%d' % (k, u['shards']), idx=crash['idx'], key='crash:' + crash['what'], desc=crash['desc'],
                                  msg='process died (%s) while executing this case; stderr tail: %s' % (crash['what'], r['stderr'][-1500:])))
                continue
            inconclusive.append('unit %s shard %d produced no result (rc=%s): %s' % (u['name'], k, r['rc'], r['stderr'][-1500:]))
            continue
        tot['evaluations'] += data['evaluations']
        tot['duplicates'] += data['duplicates']
        gk = u.get('group') or (str(u['src']), tuple(u['args']), tuple(u['flags']))
        per_unit.setdefault(gk, {}).setdefault(u['name'], 0)
        per_unit[gk][u['name']] += data['nontrivial'] - data['duplicates']
        tot['total_cases'][u['name']] = data['total_cases']
        tot['capped'] = tot['capped'] or data['capped']
        for c, n in data['classes'].items():
            classes[c] = classes.get(c, 0) + n
        for c, n in data['counters'].items():
            if c.startswith('max:'):
                counters[c] = max(counters.get(c, 0), n)
            else:
                counters[c] = counters.get(c, 0) + n
        for s in data['samples']:
            if len(samples) < 12:
                samples.append('[%s] %s' % (u['name'], s))
        for v in data['violations']:
            v['unit'] = u['name']
            v['shard'] = '%d/%d' % (k, u['shards'])
            viols.append(v)
        nv_extra = data['nviol'] - len(data['violations'])
        if nv_extra > 0:
            counters['violations_not_listed'] = counters.get('violations_not_listed', 0) + nv_extra

    for u, log in soft:
        viols.append(dict(unit=u['name'], idx=-1, key='compile', desc='unit %s does not compile' % u['name'], msg=log[-3000:]))

    counters['units_compiled'] = len(units)
    if not cfg.get('report_uninit'):
        # A read of a default-constructed exact scalar is either a read of 'T x;' (indeterminate for built-in
        # types) or of a value-initialised 'T{}' (zero for built-in types); the archetype cannot tell them
        # apart, so only C19 (which forbids relying on either) reports it. The scalar reads as zero.
        nu = len([v for v in viols if v['key'] == 'uninit'])
        viols = [v for v in viols if v['key'] != 'uninit']
        if nu:
            counters['default_constructed_scalar_reads_not_reported_here'] = nu
    if 'viol_filter' in cfg:
        dropped = [v for v in viols if not cfg['viol_filter'](v)]
        viols = [v for v in viols if cfg['viol_filter'](v)]
        if dropped:
            counters['violations_of_other_properties_ignored'] = len(dropped)
    # post-processing hook (e.g. cross-variant comparisons)
    if 'post' in cfg:
        cfg['post'](tier, units, jobs, viols, counters, classes)

    # vacuity guards
    guard_fail = []
    g = cfg.get('guards', {})
    if not tot['capped']:
        for c in g.get('classes', []):
            if c not in classes:
                guard_fail.append('class never visited: ' + c)
        for c in g.get('counters', []):
            if counters.get(c, 0) <= 0:
                guard_fail.append('counter is zero: ' + c)
        gf = g.get('func')
        if gf:
            guard_fail += gf(tier, classes, counters)

    # known findings
    known, fixed = load_known()
    reported, known_hit = [], {}
    for v in viols:
        tag = v['key'] + '|' + v['desc']
        kf = [k for k in known if k['prop'] == cid and k['key'] in tag]
        if kf:
            known_hit[kf[0]['key']] = kf[0]
        else:
            reported.append(v)

    wall = time.time() - t0
    level = cfg['level']
    cov = dict(
        evaluations=tot['evaluations'],
        distinct_nontrivial=sum(max(0, max(g.values())) for g in per_unit.values()),
        rule=cfg['rule'] + ' evaluations counts (case, build configuration) pairs; distinct_nontrivial counts each case once however many configurations ran it.',
        samples=samples,
        exhaustive=(not tot['capped']) and not inconclusive,
        enumerated_cases_per_unit=tot['total_cases'],
        duplicate_descriptors=tot['duplicates'],
        classes_hit=len(classes),
        class_counts=dict(sorted(classes.items())[:120]),
        counters=counters,
        units=[dict(name=u['name'], mode=u['mode'], shards=u['shards']) for u in units],
        bounds=cfg.get('bounds', {}).get(tier, ''),
        guards_failed=guard_fail,
        incomplete=inconclusive,
    )
    if level == 'model_checking':
        cov['states'] = counters.get('states', 0)
        cov['transitions'] = counters.get('transitions', 0)
        cov['traces_validated_against_impl'] = counters.get('traces_validated_against_impl', counters.get('transitions', 0))
        cov['explanation'] = cfg.get('mc_note', '')
    ev = dict(property_id=cid, tier=tier, seed=seed, level=level, coverage=cov,
              assumptions=cfg.get('assumptions', []), wall_s=round(wall, 2), violations=len(reported),
              known_findings=[k['text'] for k in known_hit.values()])
    write_evidence(cid, ev)

    print('%s %s: %d cases executed (%d non-trivial), %d classes, %d violations, %.1fs%s' % (
        cid, tier, tot['evaluations'], cov['distinct_nontrivial'], len(classes), len(reported), wall,
        '' if cov['exhaustive'] else ' [NOT exhaustive: cap or incomplete shard]'))
    for k in known_hit.values():
        print('KNOWN-FINDING: property=%s %s' % (cid, k['text']))
    if reported:
        seen = set()
        n = 0
        for v in reported:
            sig = (v['unit'], v['key'], v['desc'])
            if sig in seen:
                continue
            seen.add(sig)
            if n >= 15:
                break
            n += 1
            rp = next_replay_path(cid)
            json.dump(dict(property=cid, tier=tier, unit=v['unit'], shard=v.get('shard', '0/1'), idx=v['idx'], key=v['key'], desc=v['desc'], msg=v['msg'],
                           replay_cmd='./check replay ' + rp), open(rp, 'w'), indent=1)
            print('VIOLATION property=%s replay=%s' % (cid, rp))
            print('   unit=%s key=%s case=%s\n   %s' % (v['unit'], v['key'], v['desc'][:600], v['msg'][:1200]))
        return 1
    if guard_fail:
        print('GUARD FAILED (the check is vacuous or broken, not a verdict on the code):')
        for gmsg in guard_fail:
            print('   ' + gmsg)
        return 2
    if inconclusive:
        for m in inconclusive:
            print('INCOMPLETE: ' + m)
        # a shard that produced nothing at all is a broken check, not a pass
        if any('produced no result' in m for m in inconclusive):
            return 2
    return 0


def replay(path, cfgs):
    rp = json.load(open(path))
    cid, tier = rp['property'], rp['tier']
    cfg = cfgs[cid]
    if 'replay' in cfg:
        return cfg['replay'](rp)
    units = [u for u in cfg['units'](tier) if u['name'] == rp['unit']]
    if not units:
        print('unknown unit', rp['unit']); return 2
    u = units[0]
    bad = build_units(cid, [u])
    if bad:
        print('build failed:\n' + bad[0][1][-3000:]); return 2
    odir, binp, _, _ = unit_cmd(cid, u)
    outs = []
    for rep in range(2):
        out = os.path.join(odir, 'replay.%d.json' % rep)
        cmd = u.get('wrap', []) + [binp, '--tier', tier, '--case', str(rp['idx']), '--shard', rp.get('shard', '0/1'), '--out', out, '--variant', u['name'], '--desc', rp['desc']] + u['args']
        env = dict(SAN_ENV) if u['mode'] == 'san' else {}
        env.update(u['env'])
        r = run_proc(cmd, env, 600, out)
        obs = None
        if os.path.exists(out):
            d = json.load(open(out))
            obs = [(v['key'], v['desc'], v['msg']) for v in d['violations']]
        elif os.path.exists(out + '.crash'):
            obs = [('crash', open(out + '.crash').read())]
        outs.append(obs)
        print('--- replay run %d: %s' % (rep, 'no result' if obs is None else ('%d violation(s)' % len(obs))))
        sys.stdout.write(r['stderr'][-3000:])
    if outs[0] != outs[1]:
        print('REPLAY DIVERGED: the two runs of the same case differ'); return 2
    if outs[0]:
        print('VIOLATION property=%s replay=%s' % (cid, path))
        for o in outs[0]:
            print('   ' + ' :: '.join(str(x)[:800] for x in o))
        return 1
    print('case passes'); return 0


def main(argv):
    from cfg import CHECKS
    if not argv or argv[0] in ('-h', '--help'):
        print(__doc__ or 'usage: check <ID> quick|thorough | replay <path> | setup | list'); return 2
    if argv[0] == 'list':
        for k in sorted(CHECKS):
            print(k, CHECKS[k].get('title', ''))
        return 0
    if argv[0] == 'setup':
        t = time.time()
        rc = 0
        work, seen_dirs = [], set()
        for cid in sorted(CHECKS):
            for u in CHECKS[cid]['units']('quick'):
                d = unit_cmd(cid, u)[0]
                if d in seen_dirs:
                    continue   # units sharing a bindir share one binary
                seen_dirs.add(d)
                work.append((cid, u))
        with ThreadPoolExecutor(NCPU) as ex:
            res = list(ex.map(lambda w: (w, build_unit(w[0], w[1])), work))
        for (cid, u), (ok, log) in res:
            if not ok and u.get('kind') != 'compile_is_verdict':
                print('setup: build failed for %s/%s\n%s' % (cid, u['name'], log[-2000:])); rc = 2
        print('setup: %d units, %.1fs' % (len(work), time.time() - t))
        return rc
    if argv[0] == 'replay':
        return replay(argv[1], CHECKS)
    cid = argv[0]
    tier = argv[1] if len(argv) > 1 else os.environ.get('VERIF_TIER', 'quick')
    if cid == 'all':
        rc = 0
        for c in sorted(CHECKS):
            rc = max(rc, run_check(c, tier, CHECKS[c]))
        return rc
    if cid not in CHECKS:
        print('unknown check', cid); return 2
    return run_check(cid, tier, CHECKS[cid])
