"""Check table: units (binaries), levels, rules, vacuity guards."""
from driver import unit, NCPU

ALLEN13 = ['before', 'after', 'equal', 'meets', 'met-by', 'starts', 'started-by', 'finishes', 'finished-by',
           'contains', 'during', 'overlaps', 'overlapped-by']

A_EXACT = ['GMP rational arithmetic and the reference model engine/refpp.h (self-checked at start of each run)',
           'g++ 12 / libstdc++ compile the harness faithfully']
A_SHAPE = 'control flow depends only on orders, window indices and comparisons of indices (A-shape, DESIGN.md 1)'
A_POLY = 'results are linear in each operand\'s coefficient vector, so unit vectors + zero + two generic vectors decide all coefficient values (A-poly, DESIGN.md 1)'

CHECKS = {}
NOT_APPLICABLE = {}
ENGINES = [
    dict(name='E1 input enumerator', path='engine/ checks/', serves_properties=['C01','C02','C04','C06','C07','C08','C11','C12','C13','C15','C16','C17'],
         kind_free_text='nested exhaustive enumeration of grids, windows, orders, coefficient patterns, scalars and probes; every case runs the real headers; exact reference model over GMP rationals'),
]

CHECKS['C13'] = dict(
    title='Support windows form the expected interval algebra',
    level='exploration',
    technique='bounded-exhaustive enumeration of windows, pairs, triples and index probes on the real Support class against a set model',
    level_text='Every window, ordered pair and triple of windows on grids up to 6 (thorough 8) points and every probed index value is executed on the real class and compared with a std::set model; exhaustive within those bounds, nothing sampled.',
    level_note='Trusted: the set model in checks/c13_support.cpp, g++/libstdc++. Index values are probed at every threshold +-2 and at both ends of size_t, not all 2^64.',
    units=lambda tier: [unit('exact', 'checks/c13_support.cpp', 'exact'),
                        unit('chk', 'checks/c13_support.cpp', 'chk')],
    rule='every window (incl. empty and point-like) of grids with n points, every ordered pair (b on the same grid object, '
         'an equal copy, a grid with one point moved, a proper extension) and every ordered triple, plus every index probe '
         '(0..n+2, 2^63-1..2^63+1, 2^64-1-k, values that wrap start+index); oracle = std::set model of contained grid points. '
         'A case is non-trivial when all its windows are non-empty; distinctness measured by hashing descriptors.',
    bounds=dict(quick='n = 2..6 points (22 windows, 484 pairs x 4 grid variants, 10648 triples at n=6)',
                thorough='n = 2..8 points (37 windows, 50653 triples at n=8)'),
    guards=dict(classes=['same:intervalxinterval:' + r for r in ALLEN13] + ['copy:intervalxinterval:' + r for r in ALLEN13] +
                ['same:emptyxinterval:n/a', 'same:pointxpoint:equal', 'same:pointxinterval:starts', 'moved:intervalxinterval:equal',
                 'setop:refused', 'setop:computed', 'eq:true', 'eq:false', 'front/back:throw', 'front/back:value',
                 'at:notcontained', 'at:contained', 'ivl:contained', 'ivl:notcontained', 'rel:contained', 'rel:notcontained']),
    assumptions=[A_SHAPE, 'index values between the probed regions behave like their neighbours'],
)


def std_units(src, modes=('exact', 'chk'), shards=NCPU):
    return lambda tier: [unit(m, src, m, shards=shards) for m in modes]


CHECKS['C02'] = dict(
    title='Evaluation returns the value of the stored piecewise polynomial',
    level='exploration',
    technique='bounded-exhaustive enumeration of (grid, window, order, coefficient pattern, abscissa) on the real evaluation code with an exact rational scalar against explicit-power evaluation',
    level_text='Every window of 4 grid families up to 5 (thorough 7) points, orders 0..3 (0..4), unit/zero/generic coefficient vectors and a probe set containing every grid point, interior points of every grid interval, points just outside and far outside; exact equality with the midpoint polynomial computed independently. Exhaustive within those bounds.',
    level_note='Trusted: GMP, the 20-line explicit-power oracle in checks/c02_eval.cpp. x outside the probe set is covered by the degree argument (more than order+1 probes per interval) and by probing both sides of every comparison threshold; NaN abscissae are outside the statement.',
    units=std_units('checks/c02_eval.cpp'),
    rule='cases = (grid family, n, window, order, coefficient pattern); each evaluates the spline at every probe point (counter point_evaluations). Non-trivial = coefficient vector non-zero.',
    bounds=dict(quick='4 grid families x n=2..5 x all windows x orders 0..3 x (all unit vectors, zero, 2 generic)',
                thorough='n=2..7, orders 0..4'),
    guards=dict(classes=['x:interior', 'x:shared-gridpoint', 'x:front', 'x:back', 'x:left-outside', 'x:right-outside', 'x:interval-free',
                         'win:interval:sub', 'win:interval:whole', 'win:point:sub', 'win:empty:sub'],
                counters=['point_evaluations']),
    assumptions=[A_SHAPE, A_POLY],
)

CHECKS['C15'] = dict(
    title='Predicates tell the truth',
    level='exploration',
    technique='bounded-exhaustive enumeration of splines and spline pairs on the real predicates against reference predicates on the exact reference model',
    level_text='isZero on every (window, order, coefficient pattern incl. zero on some/all intervals); checkOverlap on every ordered window pair x order pair on a shared grid and on equal distinct grid objects; ==/!= on every window pair x coefficient-pattern pair on the same grid, an equal copy and a grid with one point moved. Exact, exhaustive within the bounds.',
    level_note='Trusted: GMP, engine/refpp.h (two independent formulations of each expected value are cross-checked in every case). Reflexivity is claimed for finite coefficients only (NaN != NaN).',
    units=std_units('checks/c15_predicates.cpp'),
    rule='cases = isZero(grid, window, order, pattern) | overlap(grid variant, order pair, window pair) | eq(grid variant, order, window pair, pattern pair). Non-trivial = operands have intervals (isZero: spline non-zero).',
    bounds=dict(quick='grids n=2..5 (2 families), orders 0..2', thorough='n=2..6, orders 0..3'),
    guards=dict(classes=['isZero:true:zero-coefficients', 'isZero:true:interval-free', 'isZero:false',
                         'overlap:false:intervalxinterval:meets', 'overlap:false:intervalxinterval:before', 'overlap:true:intervalxinterval:overlaps',
                         'overlap:true:intervalxinterval:during', 'overlap:true:intervalxinterval:equal', 'overlap:false:pointxinterval:during',
                         'eq:true:same:samewin', 'eq:true:copy:samewin', 'eq:false:moved:samewin', 'eq:false:same:samewin', 'eq:false:same:otherwin']),
    assumptions=[A_SHAPE],
)

CHECKS['C11'] = dict(
    title='Malformed input is rejected at the boundary with the library exception',
    level='exploration',
    technique='bounded-exhaustive enumeration of argument values of every validating entry point on the real code; accepted <=> valid by an independently written rule; refusals caught by exact exception type',
    level_text='Every sequence up to length 4 (thorough 5) over {-inf,-1,-0.0,0.0,1,2,+inf,NaN} through all four Grid constructors (plus null pointer), every index pair incl. size_t extremes for Support, every coefficient count for Spline, every knot sequence up to length 5 over {0,1,2,NaN} x {no grid, matching, extra point, moved point} x orders 0..5 for the generator, every count pair for linearCombination, every size pair and every boundary array (node, derivative 0..order+2 at every position, orders 1..4) for interpolate with a bounds-checked stub solver.',
    level_note='Trusted: the validity rules written in checks/c11_validation.cpp from the property statement. Sequences longer than the bound are covered by A-shape only (the scans compare neighbours). Support(grid,k,k), k>0 may be accepted (as empty) or refused (DESIGN.md 5).',
    units=std_units('checks/c11_validation.cpp'),
    rule='cases = one argument tuple of one validating entry point. Non-trivial = the input is valid (the accepted side); invalid inputs are the other side of the equivalence and are all executed too.',
    bounds=dict(quick='grid sequences len<=4 (double) / <=5 (rational); generator knots len<=5; supports on n=2..4; interpolation orders 1..4',
                thorough='grid sequences len<=5 (double); generator knots len<=6 (double) / <=7 (rational)'),
    guards=dict(classes=[x + y for x in ['Grid', 'Support', 'Spline', 'Generator', 'generateBSplines', 'linearCombination', 'interpolate:sizes', 'interpolate:boundaries']
                         for y in [':valid', ':invalid']] + ['Support:either']),
    assumptions=[A_SHAPE],
)
