"""Check table: units (binaries), levels, rules, vacuity guards."""
from driver import unit, NCPU

ALLEN13 = ['before', 'after', 'equal', 'meets', 'met-by', 'starts', 'started-by', 'finishes', 'finished-by',
           'contains', 'during', 'overlaps', 'overlapped-by']

A_EXACT = ['GMP rational arithmetic and the reference model engine/refpp.h (self-checked at start of each run)',
           'g++ 12 / libstdc++ compile the harness faithfully']
A_SHAPE = 'control flow depends only on orders, window indices and comparisons of indices (A-shape, DESIGN.md 1)'
A_POLY = 'results are linear in each operand\'s coefficient vector, so unit vectors + zero + two generic vectors decide all coefficient values (A-poly, DESIGN.md 1)'

CHECKS = {}
NOT_APPLICABLE = {}
ENGINES = [
    dict(name='E1 input enumerator', path='engine/ checks/', serves_properties=['C01','C02','C04','C06','C07','C08','C11','C12','C13','C15','C16','C17'],
         kind_free_text='nested exhaustive enumeration of grids, windows, orders, coefficient patterns, scalars and probes; every case runs the real headers; exact reference model over GMP rationals'),
]

CHECKS['C13'] = dict(
    title='Support windows form the expected interval algebra',
    level='exploration',
    technique='bounded-exhaustive enumeration of windows, pairs, triples and index probes on the real Support class against a set model',
    level_text='Every window, ordered pair and triple of windows on grids up to 6 (thorough 8) points and every probed index value is executed on the real class and compared with a std::set model; exhaustive within those bounds, nothing sampled.',
    level_note='Trusted: the set model in checks/c13_support.cpp, g++/libstdc++. Index values are probed at every threshold +-2 and at both ends of size_t, not all 2^64.',
    units=lambda tier: [unit('exact', 'checks/c13_support.cpp', 'exact'),
                        unit('chk', 'checks/c13_support.cpp', 'chk')],
    rule='every window (incl. empty and point-like) of grids with n points, every ordered pair (b on the same grid object, '
         'an equal copy, a grid with one point moved, a proper extension) and every ordered triple, plus every index probe '
         '(0..n+2, 2^63-1..2^63+1, 2^64-1-k, values that wrap start+index); oracle = std::set model of contained grid points. '
         'A case is non-trivial when all its windows are non-empty; distinctness measured by hashing descriptors.',
    bounds=dict(quick='n = 2..6 points (22 windows, 484 pairs x 4 grid variants, 10648 triples at n=6)',
                thorough='n = 2..8 points (37 windows, 50653 triples at n=8)'),
    guards=dict(classes=['same:intervalxinterval:' + r for r in ALLEN13] + ['copy:intervalxinterval:' + r for r in ALLEN13] +
                ['same:emptyxinterval:n/a', 'same:pointxpoint:equal', 'same:pointxinterval:starts', 'moved:intervalxinterval:equal',
                 'setop:refused', 'setop:computed', 'eq:true', 'eq:false', 'front/back:throw', 'front/back:value',
                 'at:notcontained', 'at:contained', 'ivl:contained', 'ivl:notcontained', 'rel:contained', 'rel:notcontained']),
    assumptions=[A_SHAPE, 'index values between the probed regions behave like their neighbours'],
)
