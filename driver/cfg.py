"""Check table: units (binaries), levels, rules, vacuity guards."""
from driver import unit, NCPU

ALLEN13 = ['before', 'after', 'equal', 'meets', 'met-by', 'starts', 'started-by', 'finishes', 'finished-by',
           'contains', 'during', 'overlaps', 'overlapped-by']

A_EXACT = ['GMP rational arithmetic and the reference model engine/refpp.h (self-checked at start of each run)',
           'g++ 12 / libstdc++ compile the harness faithfully']
A_SHAPE = 'control flow depends only on orders, window indices and comparisons of indices (A-shape, DESIGN.md 1)'
A_POLY = 'results are linear in each operand\'s coefficient vector, so unit vectors + zero + two generic vectors decide all coefficient values (A-poly, DESIGN.md 1)'

CHECKS = {}
NOT_APPLICABLE = {}
ENGINES = [
    dict(name='E1 input enumerator', path='engine/ checks/', serves_properties=['C01', 'C02', 'C03', 'C04', 'C06', 'C07', 'C08', 'C11', 'C12', 'C13', 'C15', 'C16', 'C17', 'C20', 'C09', 'C19'],
         kind_free_text='nested exhaustive enumeration of grids, windows, orders, coefficient patterns, scalars and probes; every case runs the real headers; exact reference model over GMP rationals (engine/refpp.h); deterministic case numbering, 16-way sharding, replay by case number'),
    dict(name='E2 program enumerator', path='gen/gen_exprs.py checks/c05_runtime.h', serves_properties=['C05', 'C09', 'C19'],
         kind_free_text='generates every operator-expression tree up to a node bound as C++ (one template instantiation each) together with its reference AST; trees sharded over translation units'),
    dict(name='E3 object-pool BFS', path='checks/c10_pool.cpp (and the history search in checks/c03_arith.cpp)', serves_properties=['C10', 'C14', 'C03', 'C09'],
         kind_free_text='explicit-state breadth-first search over histories of public operations on a pool of live objects; states are re-created by replaying the shortest history on fresh real objects; canonical key = shapes + copy-provenance partition (C03: exact values); level-synchronous, 16 threads; fixpoint or depth bound'),
    dict(name='E5 call-sequence explorer', path='seq/callseq.cpp', serves_properties=['C01', 'C02', 'C04', 'C05', 'C06', 'C07', 'C08', 'C11', 'C13', 'C14', 'C17', 'C09'],
         kind_free_text='every sequence of calls up to a depth bound over a menu of 12-29 calls on LONG-LIVED forms, operator expressions, generators and splines (plus assignments / in-place updates of the argument splines, tracked by a reference state; objects on a second grid; temporary grids whose storage comes from a private LIFO arena so that address reuse is guaranteed); one pristine forked process per sequence; after every call: exact reference value, persistent operands unchanged, results of earlier calls unchanged, and (mutation-free menus) identity with the same call executed alone in a fresh process'),
    dict(name='E6 fault-position explorer', path='seq/faults.cpp', serves_properties=['C14', 'C10', 'C09'],
         kind_free_text='every operation of a menu of 18 in-place updates and assignments on every (target window, operand window) pair of a 5-point grid is executed fault-free (counting its N scalar arithmetic operations and its A allocations) and then N + A times on fresh objects with the k-th scalar arithmetic operation throwing (k = 1..N) or the k-th allocation failing with std::bad_alloc (k = 1..A): exactly one injected fault per execution, at every possible position; afterwards the target and the operands are unchanged, every object is valid, and the call repeated fault-free gives the fault-free result'),
    dict(name='E4 schedule explorer', path='sched/', serves_properties=['C18'],
         kind_free_text='stateless model checker for the implementation: compiler instrumentation (-fsanitize=thread) linked against an own runtime (scheduler at every synchronisation operation, vector-clock happens-before race detector, allocation shadow), iterative preemption bounding + state-cached DFS, every execution in a child forked from a pristine zygote'),
]

CHECKS['C13'] = dict(
    title='Support windows form the expected interval algebra',
    level='exploration',
    technique='bounded-exhaustive enumeration of windows, pairs, triples and index probes on the real Support class against a set model',
    level_text='Every window, ordered pair and triple of windows on grids up to 6 (thorough 10) points and every probed index value is executed on the real class and compared with a std::set model; exhaustive within those bounds, nothing sampled.',
    level_note='Trusted: the set model in checks/c13_support.cpp, g++/libstdc++. Index values are probed at every threshold +-2 and at both ends of size_t, not all 2^64.',
    units=lambda tier: [unit('exact', 'checks/c13_support.cpp', 'exact'),
                        unit('chk', 'checks/c13_support.cpp', 'chk')],
    rule='every window (incl. empty and point-like) of grids with n points, every ordered pair (b on the same grid object, '
         'an equal copy, a grid with one point moved, a proper extension) and every ordered triple, plus every index probe '
         '(0..n+2, 2^63-1..2^63+1, 2^64-1-k, values that wrap start+index); oracle = std::set model of contained grid points. '
         'A case is non-trivial when all its windows are non-empty; distinctness measured by hashing descriptors.',
    bounds=dict(quick='n = 2..6 points (22 windows, 484 pairs x 4 grid variants, 10648 triples at n=6)',
                thorough='n = 2..10 points (56 windows, 175616 triples at n=10)'),
    guards=dict(classes=['same:intervalxinterval:' + r for r in ALLEN13] + ['copy:intervalxinterval:' + r for r in ALLEN13] +
                ['same:emptyxinterval:n/a', 'same:pointxpoint:equal', 'same:pointxinterval:starts', 'moved:intervalxinterval:equal',
                 'setop:refused', 'setop:computed', 'eq:true', 'eq:false', 'front/back:throw', 'front/back:value',
                 'at:notcontained', 'at:contained', 'ivl:contained', 'ivl:notcontained', 'rel:contained', 'rel:notcontained']),
    assumptions=[A_SHAPE, 'index values between the probed regions behave like their neighbours'],
)


SEQ_DEPTH = dict(bf=(3, 4), lf=(3, 4), op=(3, 4), eval=(3, 4), mix=(3, 4), prim=(3, 4), gen=(3, 4), quad=(3, 5), grid=(3, 4), gridd=(3, 4), interp=(3, 4))


def seq_unit(dom, mode='exact', name=None, depths=None):
    """E5: call sequences on long-lived objects (seq/callseq.cpp), domain `dom`"""
    dq, dt = depths or SEQ_DEPTH[dom]
    u = unit(name or ('seq-' + dom), 'seq/callseq.cpp', mode, args=['--domain', dom, '--depth', str(dq), '--depth-thorough', str(dt)],
             flags=['-DVF_QUAD'] if dom == 'quad' else (['-DVF_INTERP', '-I/usr/include/eigen3'] if dom == 'interp' else []))
    u['bindir'] = 'seq-bin-' + mode + ('-quad' if dom == 'quad' else '-interp' if dom == 'interp' else '')   # one binary for all plain domains
    return u


def seq_filter(cid):
    """violations of a call-sequence unit carry the property they belong to (seq:<id>:...); a check reports its own only"""
    def f(v):
        k = v['key']
        if k.startswith('seq:'):
            return k.startswith('seq:' + cid + ':')
        if str(v.get('unit', '')).startswith('seq-') and cid == 'C14':
            return False   # crashes inside a sequence belong to the domain's own property and to C09
        return True
    return f


def with_seq(units_fn, *doms):
    return lambda tier: units_fn(tier) + [seq_unit(d) for d in doms]

SEQ_TEXT = ' Call sequences (E5): every sequence of up to 3 (thorough 4) calls over a menu of 10-15 calls on long-lived objects of this kind, each sequence in a pristine process, every result compared with the exact reference for the current argument state.'


def std_units(src, modes=('exact', 'chk'), shards=NCPU):
    return lambda tier: [unit(m, src, m, shards=shards) for m in modes]


CHECKS['C02'] = dict(
    title='Evaluation returns the value of the stored piecewise polynomial',
    level='exploration',
    technique='bounded-exhaustive enumeration of (grid, window, order, coefficient pattern, abscissa) on the real evaluation code with an exact rational scalar against explicit-power evaluation',
    level_text='Every window of 4 grid families up to 5 (thorough 7) points, orders 0..3 (0..4), unit/zero/generic coefficient vectors and a probe set containing every grid point, interior points of every grid interval, points just outside and far outside; exact equality with the midpoint polynomial computed independently; plus supports of 17..66 (thorough ..129) grid points on both sides of powers of two (size-dependent search strategies); orders 5, 8, 11, 12, 13, 16, 20, 21 (both parities; evaluation kernels that change strategy with the number of coefficients) on two windows of a 4-point grid; and evaluation right after the data of an already evaluated spline was replaced (converting assignment, same-order assignment, +=) for every window pair and every common interval; and around move assignment / move construction for every window pair (the target evaluates as the source did, the moved-from spline evaluates to zero and its front()/back() throw). Exhaustive within those bounds.',
    level_note='Trusted: GMP, the 20-line explicit-power oracle in checks/c02_eval.cpp. x outside the probe set is covered by the degree argument (more than order+1 probes per interval) and by probing both sides of every comparison threshold; NaN abscissae are outside the statement.',
    units=std_units('checks/c02_eval.cpp'),
    rule='cases = (grid family, n, window, order, coefficient pattern); each evaluates the spline at every probe point (counter point_evaluations). Non-trivial = coefficient vector non-zero.',
    bounds=dict(quick='4 grid families x n=2..5 x all windows x orders 0..3 x (all unit vectors, zero, 2 generic)',
                thorough='n=2..7, orders 0..4'),
    guards=dict(classes=['x:interior', 'x:shared-gridpoint', 'x:front', 'x:back', 'x:left-outside', 'x:right-outside', 'x:interval-free',
                         'win:interval:sub', 'win:interval:whole', 'win:point:sub', 'win:empty:sub', 'win:large', 'replaced', 'moved'],
                counters=['point_evaluations']),
    assumptions=[A_SHAPE, A_POLY],
)

CHECKS['C15'] = dict(
    title='Predicates tell the truth',
    level='exploration',
    technique='bounded-exhaustive enumeration of splines and spline pairs on the real predicates against reference predicates on the exact reference model',
    level_text='isZero on every (window, order, coefficient pattern incl. zero on some/all intervals); checkOverlap on every ordered window pair x order pair on a shared grid and on equal distinct grid objects; every predicate also with the same object as both arguments and with an object against its copy (interval-free, point-like and ordinary windows); ==/!= on every window pair x coefficient-pattern pair on the same grid, an equal copy and a grid with one point moved. Floating types: tiny coefficients are not zero, coefficient vectors that differ in the last bit are unequal, +0 and -0 are equal coefficient values (bitwise comparisons show here). Exact, exhaustive within the bounds.',
    level_note='Trusted: GMP, engine/refpp.h (two independent formulations of each expected value are cross-checked in every case). Reflexivity is claimed for finite coefficients only (NaN != NaN).',
    units=std_units('checks/c15_predicates.cpp'),
    rule='cases = isZero(grid, window, order, pattern) | overlap(grid variant, order pair, window pair) | eq(grid variant, order, window pair, pattern pair). Non-trivial = operands have intervals (isZero: spline non-zero).',
    bounds=dict(quick='grids n=2..5 (2 families), orders 0..2', thorough='n=2..6, orders 0..3'),
    guards=dict(classes=['isZero:true:zero-coefficients', 'isZero:true:interval-free', 'isZero:false',
                         'overlap:false:intervalxinterval:meets', 'overlap:false:intervalxinterval:before', 'overlap:true:intervalxinterval:overlaps',
                         'overlap:true:intervalxinterval:during', 'overlap:true:intervalxinterval:equal', 'overlap:false:pointxinterval:during',
                         'float-predicates:double', 'float-predicates:float', 'float-predicates:long double', 'eq:true:same:samewin', 'eq:true:copy:samewin', 'eq:false:moved:samewin', 'eq:false:same:samewin', 'eq:false:same:otherwin']),
    assumptions=[A_SHAPE],
)

CHECKS['C11'] = dict(
    title='Malformed input is rejected at the boundary with the library exception',
    level='exploration',
    technique='bounded-exhaustive enumeration of argument values of every validating entry point on the real code; accepted <=> valid by an independently written rule; refusals caught by exact exception type',
    level_text='Every sequence up to length 4 (thorough 5) over {-inf,-1,-0.0,0.0,denorm_min,1,1+ulp,2,+inf,NaN} through all four Grid constructors (plus null pointer), every index pair incl. size_t extremes for Support, every coefficient count for Spline, every knot sequence up to length 5 over {0,1,1+ulp,2,NaN} x {no grid, matching, extra point, moved point} x orders 0..5 for the generator, every count pair for linearCombination, every size pair and every boundary array (node, derivative 0..order+2 at every position, orders 1..4) for interpolate with a bounds-checked stub solver.',
    level_note='Trusted: the validity rules written in checks/c11_validation.cpp from the property statement. Sequences longer than the bound are covered by A-shape only (the scans compare neighbours). Support(grid,k,k), k>0 may be accepted (as empty) or refused (DESIGN.md 5).',
    units=std_units('checks/c11_validation.cpp'),
    rule='cases = one argument tuple of one validating entry point. Non-trivial = the input is valid (the accepted side); invalid inputs are the other side of the equivalence and are all executed too.',
    bounds=dict(quick='grid sequences len<=4 (double) / <=5 (rational); generator knots len<=5; supports on n=2..4; interpolation orders 1..4',
                thorough='grid sequences len<=5 (double); generator knots len<=6 (double) / <=7 (rational)'),
    guards=dict(classes=[x + y for x in ['Grid', 'Support', 'Spline', 'Generator', 'generateBSplines', 'linearCombination', 'interpolate:sizes', 'interpolate:boundaries']
                         for y in [':valid', ':invalid']] + ['Support:either']),
    assumptions=[A_SHAPE],
)

CHECKS['C03'] = dict(
    title='Spline arithmetic is pointwise arithmetic of the denoted functions',
    level='model_checking',
    engine='E1 input enumerator + breadth-first search over in-place update histories',
    technique='bounded-exhaustive enumeration of operand pairs/collections plus explicit-state breadth-first search over all histories of in-place updates of one spline (exact-value state key), every step executed on the real code and compared with an exact reference',
    level_text='(a) Every ordered window pair on 5-point grids (all 13 Allen relations, empty, point-like), order pairs 0..2 (thorough 0..3 and (4,0),(0,4)), unit/zero/generic coefficient patterns, for + - * += -=, scalar forms over 6 scalars, unary minus, same-object forms, cross-order assignment and linearCombination of 1..3 splines (and, on 34- and 67-point grids, long supports and collections of 8..64 splines): the result must denote exactly the reference sum/difference/product/multiple. (b) All histories of += -= = (copy, move, lower order) *= /= on one target up to depth 4 (thorough 6) explored breadth-first with exact-state deduplication; the reference is stepped in parallel and compared after every transition.',
    level_note='Trusted: GMP, engine/refpp.h. States of the history search are exact (window, coefficients) values; every transition is an execution of the real operators, so traces_validated_against_impl equals transitions. Coefficient values outside the patterns: A-poly; window placements on larger grids: A-shape.',
    units=lambda tier: [unit('e1', 'checks/c03_arith.cpp', 'exact', args=['--part', 'e1']),
                        unit('e1-chk', 'checks/c03_arith.cpp', 'chk', args=['--part', 'e1']),
                        unit('hist', 'checks/c03_arith.cpp', 'exact', args=['--part', 'hist'])],
    rule='E1 cases = (grid, window pair, order pair, operation, coefficient-pattern pair) etc.; history cases = one transition of the BFS (history + next operation). Non-trivial = the operands (or the expected result of the transition) are non-zero functions.',
    bounds=dict(quick='2 grid families n=5; orders 0..2; lincomb k<=3 (every third triple); histories depth 4 (order-2 target) / 3 (order-1 target) on a 4-point grid, 24 operations',
                thorough='4 grid families n=5 plus one 6-point grid; orders 0..3 plus (4,0),(0,4); all lincomb triples; histories depth 6 (order 2) and 5 (order 1)'),
    guards=dict(classes=['add:intervalxinterval:' + r for r in ALLEN13] + ['mul:intervalxinterval:' + r for r in ALLEN13] +
                ['iadd:intervalxinterval:before', 'isub:pointxinterval:during', 'add:emptyxinterval:n/a', 'scalar:a/c', 'scalar:c*a', 'self:a*a', 'self:a-=a', 'assign',
                 'lincomb:k1', 'lincomb:k2', 'lincomb:k3', 'copygrid', 'large:binary', 'large:lincomb', 'history:+=src0', 'history:=move(src1)', 'history:-=src4', 'history:/=3'],
                counters=['states', 'transitions']),
    mc_note='states = distinct exact target values reached (counted per worker partition below the split level, so a state reached by two workers is counted twice); transitions = operator applications executed and compared.',
    assumptions=[A_SHAPE, A_POLY],
)

CHECKS['C04'] = dict(
    title='Primitive operators are d^n/dx^n and multiplication by x^n on every interval',
    level='exploration',
    technique='bounded-exhaustive enumeration over the template matrix (operator power x spline order) and over grids, windows and coefficient patterns on the real operators against the exact reference derivative / x^n',
    level_text='Dx<n> for n = 0..order+2, X<n> for n = 0..6 (plus Dx<13>, Dx<14>, Dx<21>, X<18>, X<22>, X<35> on orders up to 22: factorials beyond 2^31 and 2^64) and the identity on Spline<order>, order 0..3 (0..4), every window of grids far from, around and left of the origin, unit/zero/generic coefficients; the result must denote exactly the reference n-th derivative / x^n times the stored polynomial on every interval, and (I*s)==s.',
    level_note='Trusted: GMP, engine/refpp.h (derivative and multiplication by x in the global monomial basis). Template parameters beyond the enumerated matrix are not instantiated.',
    units=std_units('checks/c04_primitive.cpp'),
    rule='cases = (grid, operator instantiation, spline order, window, coefficient pattern). Non-trivial = operand is a non-zero function.',
    bounds=dict(quick='grids far4, neg4; orders 0..3; Dx 0..order+2; X 0..6', thorough='4 families n=5; orders 0..4; X 0..6'),
    guards=dict(classes=['high:Dx13', 'high:Dx21', 'high:X18', 'high:X35', 'Dx1:nonzero', 'Dx3:zero-result', 'X2:nonzero', 'X4:nonzero', 'X5:nonzero', 'X6:nonzero', 'I:nonzero', 'Dx0:nonzero', 'X0:nonzero', 'win:point', 'win:empty', 'win:interval']),
    assumptions=[A_SHAPE, A_POLY],
)


def c06_units(tier):
    if tier == 'quick':
        return [unit('q', 'checks/c06_bilinear.cpp', 'exact'), unit('q-chk', 'checks/c06_bilinear.cpp', 'chk')]
    us = []
    for oa in range(4):
        for ob in range(4):
            us.append(unit('t-o%d%d' % (oa, ob), 'checks/c06_bilinear.cpp', 'exact', shards=4,
                           flags=['-DVF_OPS=0,1,2,3,4,5,6,7', '-DVF_OA_LIST=%d' % oa, '-DVF_OB_MIN=%d' % ob, '-DVF_OB_MAX=%d' % ob]))
    return us


CHECKS['C06'] = dict(
    title='Bilinear forms equal the exact integral of the two transformed splines',
    level='exploration',
    technique='bounded-exhaustive enumeration of operator pairs (template instantiations), order pairs, window pairs, factor placements and coefficient patterns on the real BilinearForm with an exact rational scalar against the exact integral computed in the reference model',
    level_text='For every ordered pair from a list of 4 (thorough 8) operator expressions, every order pair 0..2 (0..3), every ordered window pair of a 5-point grid, every placement of the spline-valued factor and unit x unit / generic coefficient patterns, the value must equal the integral of ref_apply(O1,a)*ref_apply(O2,b) over the common intervals exactly; swapping the (operator, spline) pairs must not change it; ScalarProduct equals the identity form; equal grids in distinct objects give the same value; three pairs of operators of the same C++ type with different state (scalars, factor splines) on every order pair and window pair. High orders: the order pairs (14,14), (20,9), (9,20), (31,1), (16,17) with the identity pair and X1|Dx1 on six window pairs.',
    level_note='Trusted: GMP, engine/refpp.h (antiderivative evaluated at the interval end points; shares nothing with the Horner-in-h^2 kernel). Operator pairs and orders outside the enumerated matrix are not instantiated.',
    units=c06_units,
    rule='cases = (grid, operator pair, order pair, factor window, window pair, coefficient-pattern pair, grid object variant). Non-trivial = exact integral non-zero.',
    bounds=dict(quick='operators {I, X1, Dx1, V*Dx1}^2, orders 0..2, nonuni5', thorough='8 operators squared, orders 0..3, nonuni5 and far5'),
    guards=dict(classes=['common:intervalxinterval:' + r for r in ['equal', 'overlaps', 'overlapped-by', 'starts', 'started-by', 'finishes', 'finished-by', 'contains', 'during']] +
                ['nocommon:intervalxinterval:' + r for r in ['before', 'after', 'meets', 'met-by']] +
                ['same-type-different-state', 'same-object', 'factor:interval:ends-inside-grid', 'factor:interval:starts-inside-grid', 'factor:point:ends-inside-grid:starts-inside-grid', 'factor:empty:ends-inside-grid', 'factor:interval']),
    assumptions=[A_SHAPE, A_POLY],
)

CHECKS['C07'] = dict(
    title='Linear forms equal the exact integral and agree with the bilinear form',
    level='exploration',
    technique='bounded-exhaustive enumeration of operator expressions, orders (both parities of the kernel size), windows, factor placements and coefficient patterns on the real LinearForm against the exact reference integral, plus exhaustive cross-check BilinearForm == LinearForm of the product spline',
    level_text='LinearForm{O}(a) for 9 operator expressions, orders 0..4, every window of 5-point grids and unit/zero/generic coefficients equals the exact integral of ref_apply(O,a); zero for interval-free splines; orders 11, 20, 27, 28, 29, 33, 40 with the identity and with X<2>, and the linear form of products of two order-14 / order-20 splines (29 and 42 coefficients per interval). For 4x4 operator pairs, orders 0..2 squared and every window pair the bilinear form equals the identity linear form of (O1 a)*(O2 b) exactly.',
    level_note='Trusted: GMP, engine/refpp.h. The cross-check compares two library paths with each other (kernel vs operator application + product + linear kernel); both are separately compared with the reference in C06/C05/C03.',
    units=std_units('checks/c07_linear.cpp'),
    rule='cases = LF(grid, operator, order, factor window, window, pattern) | BFvsLF(operator pair, order pair, factor window, window pair, pattern variant). Non-trivial = the exact value is non-zero.',
    bounds=dict(quick='9 operators, orders 0..4, nonuni5 + far5; cross-check on nonuni5', thorough='adds neg5'),
    guards=dict(classes=['LF:interval:outsizeodd', 'LF:interval:outsizeeven', 'LF:point:outsizeodd', 'LF:empty:outsizeeven', 'cross', 'high-order']),
    assumptions=[A_SHAPE, A_POLY],
)

CHECKS['C08'] = dict(
    title='Operations across different grids are refused, never computed',
    level='exploration',
    technique='bounded-exhaustive enumeration of (entry point x way the grids differ x window placement on both sides) on the real code; oracle = exception type and code, argument snapshots, and equality with the shared-instance result for equal grids in distinct objects',
    level_text='25 entry points (binary operators and in-place forms, linearCombination with the odd grid at every position and with zero coefficients on the odd-grid spline, on the others and on all, bilinear forms plain and with spline factor, linear form and operator application with spline factor, integrate<3>, generator with supplied grid for simple, clamped and interior-double knot vectors) x every perturbation of a 5-point and of a 4-point grid (odd and even sizes) (each point moved, extra point at front/back/inside every gap, every proper prefix and suffix, equal copy) x every window on both sides, including windows that agree exactly where the supports meet and interval-free arguments.',
    level_note='Trusted: the expected-outcome rule written in checks/c08_grids.cpp from the statement. For spline factors a throw is required only if the operand has an interval (DESIGN.md 5). integrate<n> is exercised in double (boost quadrature), judged on refusal and on equality with the shared-instance result only.',
    units=std_units('checks/c08_grids.cpp'),
    rule='cases = (order pair, grid variant, entry point, window on G, window on G\'). Non-trivial = grids differ logically and a refusal is required.',
    bounds=dict(quick='5-point base grid for orders (1,1), 4-point base grid for (1,0)', thorough='both base grids, 8 order pairs from {0,1,2}^2'),
    guards=dict(classes=['equal-grids:computed', 'different:must-refuse:both-intervals', 'different:must-refuse:interval-free-arg', 'different:either:value',
                         'different:must-refuse:integrate', 'generator:accepted', 'generator:refused']),
    assumptions=[A_SHAPE],
)

CHECKS['C01'] = dict(
    title='Generated basis functions are exactly the Cox-de Boor B-splines of the knots',
    level='exploration',
    technique='bounded-exhaustive enumeration of knot vectors (every multiplicity composition x gap pattern x offset) and orders on the real generator with an exact rational scalar; exact comparison with an independent Cox-de Boor recursion in the global monomial basis plus recursion-independent oracles (support, partition of unity, one-sided derivatives)',
    level_text='Every non-decreasing knot vector up to length 7 (thorough 9): all 2^(m-1) multiplicity compositions (simple knots, interior/left/right repeats, multiplicity beyond p+1, all-equal vectors, m = p+1, m <= p), all gap patterns over {1, 1/2} (thorough {1,1/2,3}), offsets {0,-7/2,100}, orders 0..4 (0..6), through three construction routes. Count = m-p-1, every function equals the reference B-spline on every interval, vanishes outside [t_i,t_{i+p+1}], the functions sum to 1 inside [t_p,t_{m-p-1}] and are C^{p-mu} at every knot. Floating route (float, double, long double): every non-decreasing sequence of up to 4 dyadic widths from 2^-60 to 2^10 starting at 0 (strongly graded but well conditioned), simple knots or one double knot, orders 0..3: every coefficient within 2^-20 (float 2^-10) of the exact one relative to width^-degree.',
    level_note='Trusted: GMP; the 20-line reference recursion in engine/refpp.h (self-checked; two further oracles do not use it). Knot values outside the spacing alphabet enter rationally and are covered by A-shape only.',
    units=std_units('checks/c01_generator.cpp'),
    rule='cases = (knot vector, order). Non-trivial = generation succeeds with at least one function.',
    bounds=dict(quick='knot vectors of length <= 7, gaps {1,1/2}, 3 offsets, orders 0..4', thorough='length <= 9, gaps {1,1/2,3}, orders 0..6'),
    guards=dict(classes=['float:double', 'float:float', 'float:long double', 'refused:too-few-knots', 'refused:one-distinct-value', 'valid:zero-functions', 'valid:functions', 'valid:functions:interior-repeat', 'valid:functions:left-repeat',
                         'valid:functions:right-repeat', 'valid:functions:interior-repeat:mult>p+1', 'valid:functions:interior-repeat:left-repeat:right-repeat'],
                counters=['unity_intervals', 'continuity_conditions']),
    assumptions=[A_SHAPE],
)

CHECKS['C12'] = dict(
    title='Interpolation reproduces the data with the promised smoothness and boundaries',
    level='exploration',
    technique='bounded-exhaustive enumeration of abscissa sets, orders, boundary-condition sets and right-hand sides on the real interpolation routine; exact half decided by exact evaluation of every condition with an exact elimination solver, unique solvability decided independently by exact rank of the reference formulation; bundled-solver half by exact evaluation of the conditions on the returned floating-point coefficients against a normwise backward-error bound',
    level_text='Every abscissa set with 2..4 (thorough 2..5) nodes over the gap alphabet {1,1/2,3} ({1,1/2,3,1/8}), as a whole grid and as a window of a larger grid, orders 1..4, the default boundary set and every set of order-1 distinct (node, derivative) pairs, right-hand sides = all unit ordinates, all unit boundary values and a generic combination (the solution is linear in them). Bundled solver: additionally the generic right-hand side at the scales 2^-60 and 2^40 (absolute thresholds). With the exact solver all conditions hold exactly; with the Eigen adapter (double, long double) every residual stays below 2^20 eps (N R |c| + |rhs|).',
    level_note='Trusted: GMP; the reference formulation of the conditions (global monomial basis) in checks/c12_interp.cpp. The floating-point half is tolerance-based evidence on an alphabet, not a proof of backward stability; the largest observed residual/bound ratio is reported in counters.',
    units=lambda tier: [unit('exact', 'checks/c12_interp.cpp', 'exact'), unit('exact-chk', 'checks/c12_interp.cpp', 'chk'),
                        unit('eigen', 'checks/c12_interp.cpp', 'exact', flags=['-DVF_EIGEN'])],
    rule='cases = (solver, order, abscissa set, whole/embedded, boundary set, right-hand side). Non-trivial = the problem is uniquely solvable (others are counted in skipped_not_uniquely_solvable).',
    bounds=dict(quick='n=2..4 nodes, gaps {1,1/2,3} (exact) / {1,1/2,3,1/8} (Eigen), orders 1..4, all boundary sets', thorough='n=2..5, gaps {1,1/2,3,1/8}; order 5 for n<=4'),
    guards=dict(classes=['solved:default:whole', 'solved:default:embedded', 'solved:explicit:whole', 'not-uniquely-solvable', 'solved:double', 'solved:long double'],
                counters=['conditions_checked', 'skipped_not_uniquely_solvable']),
    assumptions=[A_SHAPE, 'the solution is linear in ordinates and boundary values, so unit right-hand sides decide all values (exact half)'],
)


def c05_units(tier, bmode='exact', owner='C05', plan=None):
    import subprocess, os
    from driver import VERIF, BUILD
    gdir = os.path.join(BUILD, owner, 'gen')
    if plan is None:
        plan = [('k1', 24), ('fixed', 2), ('uu', 32)] if tier == 'quick' else [('k1', 24), ('fixed', 2), ('k2', 208), ('red3', 352)]
    us = []
    for mode, ntus in plan:
        subprocess.run(['python3', os.path.join(VERIF, 'gen', 'gen_exprs.py'), gdir, mode, str(ntus)], check=True, stdout=subprocess.DEVNULL)
        for i in range(ntus):
            us.append(unit('%s-%03d' % (mode, i), os.path.join(gdir, '%s_%03d.cpp' % (mode, i)), bmode, shards=1))
    return us


CHECKS['C05'] = dict(
    title='Operator expressions act as the differential expression they spell',
    level='exploration',
    deadline=dict(quick=600, thorough=4500),
    engine='E2 program enumerator x E1 input enumerator',
    technique='exhaustive enumeration of programs: every operator-expression tree up to a node bound over a fixed grammar is generated as C++ (a distinct template instantiation each) together with its reference AST, applied by the real library to every operand/factor placement and compared exactly with a reference interpreter of the AST',
    level_text='All 246 expression trees with at most one operator node (the one-scalar trees once per special scalar value 2, 1, 0, -1, 1/3, i.e. 606 programs) over {I, X<1>, X<2>, Dx<1>, Dx<2>, spline factor} x {unary minus, c*A, A*c, A/c, A+c, c+A, A-c, c-A with c of the scalar type, of type int and of type size_t} x {A*B, A+B, A-B} (thorough: all 14166 trees with at most two nodes and all 36912 three-node trees of a reduced grammar), plus the commutator, the four example Hamiltonians and deeper nests; each applied to splines of order 0..2 on every window of a 5-point grid with unit/zero/generic coefficients and, for trees with a spline factor, 7 factor placements (ending inside, starting inside, point-like, empty, ...) x 2 factor values (the second on an equal grid held in a distinct object). The result must denote exactly ref_apply(AST, operand).',
    level_note='Trusted: GMP, the recursive interpreter ref_apply in engine/refpp.h, gen/gen_exprs.py emitting C++ and AST from one object. Trees larger than the bound are not instantiated; operator classes are compositional (a node sees only its children\'s output arrays), so two-node nesting exercises every parent/child pair of node kinds. Expressions are built from temporaries (named lvalue operators do not compile in compound expressions).',
    units=c05_units,
    rule='cases = (expression tree, factor window and value, operand order, operand window, coefficient pattern). Non-trivial = the reference result is a non-zero function. counters.trees = number of distinct expression trees compiled and run.',
    bounds=dict(quick='606 programs from the 246 trees with <= 1 operator node (special scalar values) + 1452 two-node trees in which a scalar/unary node wraps a scalar/unary node directly + 10 fixed deeper trees', thorough='14166 trees (<= 2 nodes) + 36912 trees (3 nodes, reduced grammar {X1,Dx1,V; -A, i*A, A/i, A/c, A-c, i-A, A-u; * + -}) + fixed list'),
    guards=dict(classes=['tree:with-factor', 'tree:no-factor', 'factor:interval:ends-inside:starts-inside', 'factor:interval:ends-inside', 'factor:interval:starts-inside', 'factor:point:ends-inside:starts-inside', 'factor:empty:ends-inside', 'factor:interval'],
                counters=['trees']),
    assumptions=[A_SHAPE, A_POLY],
)


def pool_units(prop):
    return lambda tier: [unit('pool', 'checks/c10_pool.cpp', 'exact', shards=1, args=['--prop', prop]),
                         unit('pool-chk', 'checks/c10_pool.cpp', 'chk', shards=1, args=['--prop', prop])]


POOL_GUARD_OPS = ['A=move(B):value', 'A=move(A):value', 'A+=KH(H):threw', 'A+=KH(H):value', 'A+=B:threw', 'A+=B:value', 'U:=Support(G,2,1):threw',
                  'A:=S1(G,whole,too-few-coefficients):threw', '(void)U.at(99):threw', '{S1 t(move(A));}:value', 'U=U.calcUnion(A.getSupport()):threw',
                  'U=U.calcUnion(A.getSupport()):value', 'A=lincomb({2,3},{A,B}):threw', 'A=lincomb({2,3},{A,B}):value', '(void)A.front():threw', '(void)A.front():value']

CHECKS['C10'] = dict(
    title='Objects are always valid: class invariants survive every history',
    level='model_checking',
    engine='E3 object-pool BFS',
    technique='explicit-state breadth-first search over all histories of ~85 public operations on a pool of live library objects, run to fixpoint with canonical-state deduplication; every transition executes the real code and the class invariants are evaluated on every object in every reached state',
    level_text='Pool = one Support, two Spline<1>, one Spline<0> (second search: Spline<2>) over a grid G, an equal copy and a different grid H; alphabet = valid and invalid constructions, copy/move construction and assignment between slots, self-assignment, self-move, cross-order assignment, += -= *= /=, results of + - * / and of operator applications assigned back, union/intersection, calls that must throw (other grid, bad indices, wrong coefficient count). Search (quick: depth 5; thorough: to fixpoint) on the key (grid class, window) per slot + copy-provenance partition; after every transition every object must satisfy the invariants through the public accessors, moved-from objects must be interval-free on the same grid; also with the library self-checks compiled in.',
    level_note='The model IS the implementation: a state is represented by the shortest history reaching it and re-created by replaying that history on fresh real objects, so every explored trace is an implementation execution (traces_validated_against_impl = transitions). The key drops coefficient values (no mutator in the alphabet branches on them, A-shape); the provenance partition keeps copies distinguishable from independently built equals. Bounds: pool of 4 slots, G with 3 (thorough 4) points, H with 2 (3).',
    units=pool_units('C10'),
    rule='each evaluation is one transition (history + next operation) executed on real objects; all are distinct by construction (distinct (state, operation) pairs).',
    bounds=dict(quick='G 3 points, H 2 points; pools (1,1,0) and (1,1,2); every history up to depth 5 (state-deduplicated); with and without library self-checks', thorough='same pools to FIXPOINT (about 2.8e5 states, depth 23, each), plus G 4 points / H 3 points (with partially overlapping seed windows) up to depth 7'),
    guards=dict(classes=POOL_GUARD_OPS, counters=['states', 'transitions']),
    mc_note='states = distinct canonical pool states over both searches and both build configurations; transitions = operations executed (each on a freshly replayed pool).',
    assumptions=[A_SHAPE, 'aliasing between objects can only arise through copy/move operations, which the provenance partition tracks'],
)
CHECKS['C14'] = dict(CHECKS['C10'],
    title='Value semantics: operations never disturb their operands or earlier results',
    technique='explicit-state breadth-first search over all histories of ~85 public operations on a pool of live library objects (fixpoint, canonical state = shapes + copy-provenance partition); around every transition the observable state of every object and grid is snapshotted through the public API and compared',
    level_text='Same pool, alphabet and search as C10. Before every transition a deep snapshot (window, coefficients, grid points, four evaluations) of every live object, every fixed operand and every grid is taken; afterwards every object other than the explicit target of an in-place operator or assignment is identical, a throwing call changes nothing, copies equal their source, self-assignment keeps the value, mutating a copy leaves the original alone (copy-then-mutate operations and 2-step paths of the search).',
    units=pool_units('C14'),
)


def c09_units(tier):
    th = tier == 'thorough'
    us = []
    def add(prefix, src, shards=NCPU, args=None, flags=None):
        us.append(unit(prefix, src, 'san', shards=shards, args=args or [], flags=flags or []))
    add('c13-accessors', 'checks/c13_support.cpp')
    add('c02', 'checks/c02_eval.cpp')
    add('c03', 'checks/c03_arith.cpp')
    add('c04', 'checks/c04_primitive.cpp')
    add('c06', 'checks/c06_bilinear.cpp', args=['--tier', 'quick'])
    add('c07', 'checks/c07_linear.cpp')
    add('c08', 'checks/c08_grids.cpp')
    add('c01', 'checks/c01_generator.cpp', args=['--tier', 'quick'])   # the thorough generator space takes 2 CPU-hours natively
    add('c11', 'checks/c11_validation.cpp')
    add('c12', 'checks/c12_interp.cpp')
    add('c12-eigen', 'checks/c12_interp.cpp', flags=['-DVF_EIGEN'])
    add('c15', 'checks/c15_predicates.cpp')
    add('c10-pool', 'checks/c10_pool.cpp', shards=1, args=['--prop', 'C10', '--touch', '1', '--levels', '5' if th else '4', '--levels2', '4'])   # --touch: every object is used after every transition
    add('c17-n2', 'checks/c17_quadrature.cpp', flags=['-DVF_N=2'])
    add('c17-n3-ld', 'checks/c17_quadrature.cpp', flags=['-DVF_N=3', '-DVF_LONG_DOUBLE'])
    for u in c05_units(tier, 'san', 'C09', [('k1', 12), ('fixed', 2)] + ([('uu', 32), ('k2v', 64)] if th else [])):
        u['name'] = 'c05-' + u['name']
        us.append(u)
    # memcheck pass (auxiliary; vg-c03 runs every 8th, vg-c07 every 2nd case of the quick space): the exact harnesses (no sanitizer) under valgrind, which sees reads of uninitialised storage of ANY
    # type (indices, sizes, flags), not only of the scalar type; errors are attributed to the case in flight
    VG = ['valgrind', '-q', '--error-exitcode=0', '--undef-value-errors=yes', '--track-origins=no', '--num-callers=12']
    for name, src, a in [('vg-c02', 'checks/c02_eval.cpp', []), ('vg-c04', 'checks/c04_primitive.cpp', []), ('vg-c03', 'checks/c03_arith.cpp', ['--part', 'e1', '--stride', '8']),
                         ('vg-c13', 'checks/c13_support.cpp', []), ('vg-c07', 'checks/c07_linear.cpp', ['--stride', '2'])] + ([('vg-c06', 'checks/c06_bilinear.cpp', []), ('vg-c01', 'checks/c01_generator.cpp', [])] if th else []):
        v = unit(name, src, 'o0', args=a + ['--tier', 'quick'], flags=['-g', '-DVF_VALGRIND'])   # -O0: locals live in memory, so memcheck sees uninitialised ones;   # always the quick space: memcheck is 30-50x slower
        v['wrap'] = VG
        us.append(v)
    return us


def c09_filter(v):
    k = v['key']
    if v.get('unit') == 'c13-accessors' and k in ('at', 'grid.at', 'absoluteFromRelative', 'relativeFromAbsolute', 'intervalIndexFromAbsolute', 'front', 'back'):
        return True   # "bounds-checked accessors throw for every index outside the view" is part of C09's statement
    return k.startswith('crash:') or k in ('divzero', 'valgrind') or k.endswith(':solver-index') or k == 'solver-index' or k.endswith('invalid-result')


CHECKS['C09'] = dict(
    title='No operation touches memory outside its objects or runs into undefined behaviour',
    level='exploration',
    engine='E1/E2/E3 under sanitizers',
    technique='the bounded-exhaustive input, program and history spaces of the other checks re-executed on the real code built with AddressSanitizer + UndefinedBehaviorSanitizer (no recovery) + libstdc++ debug mode (checked iterators and subscripts), and (five harnesses) under valgrind memcheck for reads of uninitialised storage of any type; plus an exhaustive sweep of the bounds-checked accessors over index values incl. the extremes of size_t',
    level_text='Every case of the quick (thorough: thorough for the cheap ones, plus all two-node expression trees with a spline factor) spaces of C01-C08, C10-C13, C15, C17 runs once more under ASan+UBSan+_GLIBCXX_DEBUG; a sanitizer report, a debug-mode assertion, a signal, a division by zero or an out-of-range solver access is a violation and names the case in flight. Checked accessors (Grid::at, Support::at, absoluteFromRelative, relativeFromAbsolute, intervalIndexFromAbsolute) are swept over every window x every index in {0..n+2, 2^63-1..2^63+1, 2^64-1-k, values that wrap start+index}.',
    level_note='Trusted: the sanitizer runtimes of g++ 12, libstdc++ debug mode. Only executed paths are checked; MSan is not available (no instrumented libstdc++); reads of default-constructed scalars are seen by the poisoned exact scalar but reported under C19 only, because the archetype cannot tell a default-initialised T x; from the well-defined value-initialised T{}. Functional mismatches found by these harnesses belong to their own properties and are ignored here (counted in counters).',
    units=c09_units,
    viol_filter=c09_filter,
    deadline=dict(quick=900, thorough=2700),
    rule='cases are those of the listed harnesses (see their rules), executed in the sanitizer build; non-trivial as defined there.',
    bounds=dict(quick='quick spaces of 14 harnesses incl. 214 expression trees and the pool search to depth 4', thorough='thorough spaces of the cheap harnesses (quick for the generator and bilinear forms), 246 + 1452 + 4300 expression trees (all two-node trees with a spline factor), pool search to depth 5'),
    guards=dict(classes=['at:notcontained', 'abs:notcontained', 'ivl:notcontained', 'rel:notcontained', 'tree:with-factor', 'factor:interval:ends-inside', 'A=move(A):value', 'x:shared-gridpoint',
                         'mul:intervalxinterval:overlaps', 'common:intervalxinterval:overlaps', 'Grid:invalid', 'solved:default:whole', 'valid:functions:interior-repeat']),
    assumptions=['a defect that neither crashes, nor trips a sanitizer or checked-STL assertion, nor reads an uninitialised scalar on an executed path is invisible to this check'],
)

CHECKS['C17'] = dict(
    title='Numerical quadrature matches the analytic forms where Gauss-Legendre is exact',
    level='exploration',
    technique='bounded-exhaustive enumeration of (quadrature size, weight degree, order pair, window pair, coefficient pattern) on the real integrate<n> in double and long double; oracle = exact rational integral over the common intervals with a 2^20 eps bound relative to the sum of absolute values of the terms, and exact zero without a common interval',
    level_text='integrate<n>, n in {1,2,3,4,6} (long double: {2,3,6}; thorough 1..8 for both), weights x^0..x^3, a generic cubic and (n >= 4) x^5, x^6, 7 (13) order pairs from 0..3, every ordered window pair of two 5-point well-scaled dyadic grids, 3 (4) coefficient patterns, double and long double. Whenever 2n-1 >= order1+order2+d the result is within 2^20 eps mag of the exact integral, as is the analytic BilinearForm with the weight as operator; without a common interval the result is exactly 0. Cases below the exactness bound are executed and counted (the comparison can and does fail there).',
    level_note='Tolerance-based evidence on an enumerated alphabet (weakest kind in this design): rounding claims cannot be decided exactly. Trusted: GMP, exact conversion of floating results, boost::math::quadrature::gauss as shipped. mag is an upper bound of the sum of absolute quadrature terms computed in rationals.',
    units=lambda tier: [unit('d-n%d' % n, 'checks/c17_quadrature.cpp', 'exact', shards=4, flags=['-DVF_N=%d' % n]) for n in ([1, 2, 3, 4, 6] if tier == 'quick' else range(1, 9))] +
                       [unit('ld-n%d' % n, 'checks/c17_quadrature.cpp', 'exact', shards=4, flags=['-DVF_N=%d' % n, '-DVF_LONG_DOUBLE']) for n in ([2, 3, 6] if tier == 'quick' else range(1, 9))] +
                       [unit('d-chk-n%d' % n, 'checks/c17_quadrature.cpp', 'chk', shards=4, flags=['-DVF_N=%d' % n]) for n in ([3] if tier == 'quick' else [3, 5])],
    rule='cases = (type, grid, n, weight, order pair, window pair, pattern). Non-trivial = exactness regime with a non-zero exact integral.',
    bounds=dict(quick='n in {1,2,3,4,6}; 5 weights; 7 order pairs; 2 grids x 256 window pairs x 3 patterns', thorough='n = 1..8; 13 order pairs; 4 patterns'),
    guards=dict(classes=['exact-regime', 'inexact-regime', 'nocommon', 'same-object'], counters=['inexact_regime_differs']),
    assumptions=['inputs outside the alphabet are not covered; this is enumeration evidence for a numerical claim'],
)


def c16_units(tier):
    def u(name, cxx, opt, chk):
        return unit(name, 'checks/c16_float.cpp', 'raw', cxx=cxx, group='same-inputs', flags=[opt, '-ffp-contract=off'] + (['-DBSPLINE_ADD_TEST_CHECKS'] if chk else []))
    if tier == 'quick':
        return [u('gcc-O0', 'g++', '-O0', False), u('gcc-O0-chk', 'g++', '-O0', True), u('gcc-O2', 'g++', '-O2', False), u('gcc-O2-chk', 'g++', '-O2', True)]
    us = []
    for cxx, cn in (('g++', 'gcc'), ('clang++', 'clang')):
        for opt in ('-O0', '-O1', '-O2', '-O3'):
            for chk in (False, True):
                us.append(u('%s%s%s' % (cn, opt, '-chk' if chk else ''), cxx, opt, chk))
    return us


def c16_post(tier, units, jobs, viols, counters, classes):
    """values must not depend on whether the optional self-checks are compiled in: compare the output hashes of
    every (compiler, optimisation level) pair of builds, shard by shard"""
    import json, os
    hashes = {}
    for (u, k, cmd, env, out) in jobs:
        if os.path.exists(out):
            try:
                hashes[(u['name'], k)] = json.load(open(out))['counters'].get('hash:outputs')
            except Exception:
                pass
    pairs = 0
    for (name, k), h in hashes.items():
        if name.endswith('-chk'):
            continue
        h2 = hashes.get((name + '-chk', k))
        if h2 is None or h is None:
            continue
        pairs += 1
        if h != h2:
            viols.append(dict(unit=name, shard='%d/16' % k, idx=-1, key='selfcheck-dependence', desc='build %s vs %s-chk, shard %d' % (name, name, k),
                              msg='floating-point outputs differ between the builds with and without BSPLINE_ADD_TEST_CHECKS (output hash %s vs %s)' % (h, h2)))
    counters['chk_on_off_hash_pairs_compared'] = pairs
    counters.pop('hash:outputs', None)


CHECKS['C16'] = dict(
    title='Floating-point results stay at rounding level of the exact result',
    level='exploration',
    engine='E1 input enumerator x build-configuration matrix',
    technique='bounded-exhaustive enumeration of well-scaled grids, knot multiplicities, orders and operations in float, double and long double across a build matrix (compiler x optimisation level x self-checks on/off); every produced number is converted exactly to a rational and compared with an independent exact reference under the stated 2^20 eps bound relative to the sum of absolute values of the terms; output bit patterns hashed and compared between self-check on/off builds',
    level_text='All 375 grids formed by 2..4 of the points {-8,-63/8,-4,-1/8,0,1/8,1,7/2,63/8,8}; knot multiplicities 1..2 at every point; generation of orders 0..6 (every coefficient), and for 10 order pairs from 0..3 on three window placements: evaluation at exactly representable points, a+b, a*b, Dx<1>, Dx<2>, X<1>..X<6>, spline factor, operator expressions with scalars of a narrower floating type and of integral type (X1/3f, I/7f, 3f*Dx1, X1/3, X1/7.0), X1*Dx1-2, two linear and four bilinear forms; and, on the generated B-splines of orders 4..6 themselves (operands whose high-order coefficients are naturally tiny next to the low-order ones), the linear form, scalar products and Dx1-Dx1 forms with their neighbours and scalar products with every overlapping order-0 B-spline in both argument orders. The magnitude comes from a reference written in the midpoint formulation over (value, magnitude) pairs of rationals (not from the operation sequence of the tree under test), cross-checked against the global-basis reference in every case.',
    level_note='Tolerance-based enumeration evidence for a numerical-stability claim, not an error analysis (weakest kind in this design). Trusted: GMP, exact float->rational conversion, the (value, magnitude) reference in checks/c16_float.cpp. -ffp-contract=off so that both compilers evaluate the same expressions.',
    units=c16_units,
    post=c16_post,
    rule='cases = (type, grid, multiplicity pattern, order) for generation and (type, grid, order pair, window pair) for the operations; counters.comparisons = individual numbers compared. Every case is non-trivial (produces numbers).',
    bounds=dict(quick='375 grids; builds g++ {-O0,-O2} x self-checks {off,on}', thorough='builds {g++, clang++} x {-O0,-O1,-O2,-O3} x {off,on}'),
    guards=dict(classes=['gen:p0', 'gen:p6', 'ops'], counters=['comparisons', 'chk_on_off_hash_pairs_compared']),
    assumptions=['inputs outside the alphabet are not covered'],
)


def c19_units(tier):
    th = tier == 'thorough'
    F = ['-DVF_STRICT']
    us = [unit('instantiate', 'checks/c19_instantiate.cpp', 'exact', shards=1, kind='compile_is_verdict')]
    if th:   # a second front end finds different two-phase-lookup and conversion problems
        us.append(unit('instantiate-clang', 'checks/c19_instantiate.cpp', 'exact', shards=1, cxx='clang++', kind='compile_is_verdict'))
        us.append(unit('c03-strict-clang', 'checks/c03_arith.cpp', 'exact', cxx='clang++', flags=F, kind='compile_is_verdict'))
        us.append(unit('c07-strict-clang', 'checks/c07_linear.cpp', 'exact', cxx='clang++', flags=F, kind='compile_is_verdict'))
    for name, src in [('c01', 'checks/c01_generator.cpp'), ('c02', 'checks/c02_eval.cpp'), ('c03', 'checks/c03_arith.cpp'), ('c04', 'checks/c04_primitive.cpp'),
                      ('c06', 'checks/c06_bilinear.cpp'), ('c07', 'checks/c07_linear.cpp'), ('c08', 'checks/c08_grids.cpp'), ('c11', 'checks/c11_validation.cpp'),
                      ('c12', 'checks/c12_interp.cpp'), ('c13', 'checks/c13_support.cpp'), ('c15', 'checks/c15_predicates.cpp')]:
        us.append(unit(name + '-strict', src, 'exact', flags=F, kind='compile_is_verdict'))
    # lazily evaluated archetype (operators return proxies that refer to their operands, like GMP's own mpq_class)
    for name, src in [('c01', 'checks/c01_generator.cpp'), ('c02', 'checks/c02_eval.cpp'), ('c03', 'checks/c03_arith.cpp'), ('c04', 'checks/c04_primitive.cpp'),
                      ('c07', 'checks/c07_linear.cpp')] + ([('c06', 'checks/c06_bilinear.cpp'), ('c12', 'checks/c12_interp.cpp'), ('c08', 'checks/c08_grids.cpp')] if th else []):
        us.append(unit(name + '-lazy', src, 'exact', flags=['-DVF_LAZY'], kind='compile_is_verdict'))
    # trivially copyable archetype whose zero is not the all-zero bit pattern (memcpy / memset fast paths)
    for name, src in [('c01', 'checks/c01_generator.cpp'), ('c02', 'checks/c02_eval.cpp'), ('c03', 'checks/c03_arith.cpp'), ('c04', 'checks/c04_primitive.cpp'),
                      ('c07', 'checks/c07_linear.cpp')] + ([('c06', 'checks/c06_bilinear.cpp'), ('c12', 'checks/c12_interp.cpp'), ('c08', 'checks/c08_grids.cpp')] if th else []):
        us.append(unit(name + '-triv', src, 'exact', flags=['-DVF_TRIV'], kind='compile_is_verdict'))
    for u in c05_units(tier, 'exact', 'C19', [('k1', 12)]):
        u['name'] = 'c05-' + u['name'] + '-lazy'
        u['flags'] = ['-DVF_LAZY']
        u['kind'] = 'compile_is_verdict'
        us.append(u)
    us.append(unit('c10-pool-strict', 'checks/c10_pool.cpp', 'exact', shards=1, flags=F, args=['--prop', 'C10', '--levels', '4' if th else '3', '--levels2', '3'], kind='compile_is_verdict'))
    for u in c05_units(tier, 'exact', 'C19', [('k1', 12), ('fixed', 2)] + ([('k2', 160)] if th else [])):
        u['name'] = 'c05-' + u['name'] + '-strict'
        u['flags'] = F
        u['kind'] = 'compile_is_verdict'
        us.append(u)
    return us


CHECKS['C19'] = dict(
    title='The scalar type needs only the documented operations',
    level='exploration',
    engine='instantiation matrix + E1/E2/E3 on the strict archetype',
    technique='enumeration of configurations: every public class template is explicitly instantiated and every function/operator template is called with a strict scalar archetype (GMP rational offering exactly the documented operations, explicit construction from int only); compile failure is the violation; the bounded-exhaustive exact checks of the other properties are then re-run on that archetype',
    level_text='vf::Q offers default/copy construction, explicit Q(int), + - * / and compound forms, unary minus and the six comparisons - nothing else (no implicit conversions, no <cmath>, no numeric_limits, no streaming). vf::LQ offers the same through lazily evaluated operators (proxies referring to their operands, the scheme of GMP mpq_class) with liveness tracking, so that results kept beyond the full expression are detected. vf::TQ offers the same as a trivially copyable 4-byte handle whose zero is not the all-zero bit pattern (memcpy/memset/bitwise shortcuts selected by type traits are taken and an all-zero handle is reported when read); five harnesses (thorough eight) run with it. All core templates for orders 0..4 are explicitly instantiated with it (all non-template members), and the harnesses of C01-C08, C10-C13, C15 (incl. 214 expression trees with scalars of type Q and int; thorough 10302 trees) are compiled and run with it: every result must still equal the exact reference.',
    level_note='The deciding step of the compile half is the compiler\'s type check over an enumerated instantiation set (bounded enumeration of configurations, not of behaviours). Paths in if-constexpr branches not selected by the enumerated orders are not type-checked. Trusted: g++ 12.',
    units=c19_units,
    report_uninit=True,
    rule='cases are those of the listed harnesses, executed with the strict archetype as scalar type; non-trivial as defined there. counters.units_compiled = translation units that type-checked against the archetype.',
    bounds=dict(quick='22 class-template instantiations; 12 harnesses + 14 expression-tree units on vf::Q; 5 harnesses + 12 expression-tree units on the lazy archetype vf::LQ', thorough='adds 160 units with all two-node expression trees'),
    guards=dict(classes=['tree:with-factor', 'mul:intervalxinterval:overlaps', 'common:intervalxinterval:overlaps', 'solved:default:whole', 'valid:functions:interior-repeat', 'Grid:invalid']),
    assumptions=['scalar types satisfying the documented requirements behave like the archetype as far as overload resolution is concerned'],
)


def c20_units(tier):
    import os
    from driver import REPO
    ex = os.path.join(REPO, 'examples')
    srcs = ['checks/c20_examples.cpp'] + [os.path.join(ex, f) for f in ('diffusion.cpp', 'spline-potential.cpp', 'harmonic-oscillator.cpp', 'hydrogen.cpp')]
    F = ['-I', ex, '-DBSPLINE_INTERPOLATION_USE_EIGEN', '-DBSPLINE_ADD_TEST_CHECKS']
    return [unit('san', srcs, 'san', flags=F, group='same-inputs'), unit('release', srcs, 'raw', flags=F + ['-O2'], group='same-inputs')]


CHECKS['C20'] = dict(
    title='The shipped example solvers are well-defined programs and solve their problems',
    level='exploration',
    engine='E1 input enumerator on the real examples under sanitizers',
    technique='bounded enumeration of admissible inputs of the real example translation units (examples/*.cpp compiled unmodified) built with AddressSanitizer, UndefinedBehaviorSanitizer, libstdc++ debug mode and Eigen assertions; oracle = no report/assertion/signal plus the physical invariants the statement lists, within 1e-8',
    level_text='Diffusion: grids of 2,3,4,6,9 points (uniform and warped), every piecewise-constant coefficient over {1/3,1,2} for n<=4 and patterned ones above, three boundary-value pairs: both end values attained, invariance under scaling D by 1/4, 3, 1/3, 2^-60, 3*2^40 at 17 probe points, straight line for constant D; sub-window coefficients refused or solved. Spline potential: grids of 11..22, 41 (and 5) points x potentials {0, x^2/2, cosh-1} x three construction routes: at most as many eigenpairs as basis functions, eigenvalues (sorted) shifted by c for c in {1,-5/2}. Harmonic oscillator and hydrogen: n+1/2 and -1/n^2 within the test-suite tolerances. Everything also in a plain -O2 build.',
    level_note='Numerical oracles are tolerance-based (1e-8 relative; observed deviations are below 1e-13) and the input families are small. Interior values of the diffusion solution for discontinuous coefficients are not compared with the exact piecewise-linear solution (the C^9 basis cannot represent the kink; DESIGN.md 5). Trusted: sanitizer runtimes, Eigen 3.4.',
    units=c20_units,
    deadline=dict(quick=900, thorough=2700),
    rule='cases = one input of one example solver (each case runs the solver 1-4 times). Non-trivial = the solver returned a result that was compared.',
    bounds=dict(quick='see level_text', thorough='adds grids of 5 and 13 points for diffusion (exhaustive coefficients up to n=5) and potentials on 31 and 61 points'),
    guards=dict(classes=['diffusion:constant-D', 'diffusion:varying-D', 'potential:small-basis:interpolated', 'potential:full-basis:handbuilt', 'potential:full-basis:handbuilt-subwindow',
                         'potential:too-few-points', 'harmonic-oscillator', 'hydrogen']),
    assumptions=['admissible inputs = positive piecewise-constant diffusion coefficients on a whole grid, cubic potentials on a grid, finite boundary values'],
)


def c18_units(tier):
    srcs = ['sched/explorer.cpp', 'sched/rt.cpp',
            dict(path='sched/rt_mem.c', cxx='gcc', c=True, flags=['-fno-builtin', '-fno-tree-loop-distribute-patterns']),
            dict(path='sched/c18_harness.cpp', flags=['-fsanitize=thread'])]
    u = unit('explore', srcs, 'raw', flags=['-O1'])
    u['ldflags'] = ['-O1']
    # secondary detector: same bodies, real ThreadSanitizer runtime, free-running
    f = unit('tsan-free', ['sched/tsan_free.cpp', 'sched/c18_harness.cpp'], 'raw', shards=4, flags=['-O1', '-g', '-fsanitize=thread'])
    return [u, f]


def c18_guard(tier, classes, counters):
    g = []
    if counters.get('tsan_free_runs', 0) <= 0:
        g.append('the free-running ThreadSanitizer pass did not run')
    if counters.get('distinct_sync_orders', 0) <= counters.get('programs', 0):
        g.append('no program showed more than one synchronisation order: nothing collided')
    if counters.get('guard_ops', 0) <= 0:
        g.append('no static-initialisation guard was exercised')
    if counters.get('atomic_ops', 0) <= 0 or counters.get('plain_reads', 0) <= 0:
        g.append('the runtime observed no accesses')
    return g


CHECKS['C18'] = dict(
    title='Concurrent read-only use is race-free and deterministic',
    level='model_checking',
    engine='E4 schedule explorer',
    technique='stateless model checking of the implementation: real pthreads serialised by a cooperative scheduler at every synchronisation point (atomic operation, static-initialisation guard, thread start/exit), iterative preemption bounding 0,1,2 followed by unbounded depth-first search with state caching; happens-before (vector-clock) race detection over every load and store reported by compiler instrumentation (-fsanitize=thread, linked against an own runtime), allocation shadow, and bit-wise comparison of every thread\'s results with a sequential run on every explored schedule',
    level_text='Programs: all 225 ordered pairs of 15 operations (evaluate; copy+destroy of spline, support and grid; a+b, a*b, a-b, predicates; operator application incl. spline factor; bilinear/linear forms; generateBSplines; isZero with its function-local static; destruction of thread-owned copies sharing the grid; support algebra; combination with a spline on an equal grid held in a distinct object; X<2>, X<4>, Dx<2>; linearCombination, integrate<3>, product with an interval-free spline; move construction/assignment of the owned copy, getData and a new Grid over the shared storage; copy + use + destruction of a generator, an operator expression with a spline factor and both forms; construction of thread-private grids, generators, bases and splines from scratch) on shared const objects, further pairs with a class-type scalar that is neither arithmetic nor trivially copyable (guarded static initialisation; code paths chosen for heavy scalars), including every operation against itself, 3-thread and 2x2-operation programs (thorough: all 680 unordered triples and all 2x2-operation programs over the five operations that copy, destroy or lazily initialise). For each program every schedule with at most 2 preemptions is covered (bounds 0, 1, 2 run to completion); the unbounded state-cached search is then run under an execution cap and completes for the smaller programs (counters say for how many). With synchronisation confined to read-modify-write chains on reference counts, one preemption already places any two code segments of two threads concurrently, so every potential race between segments is examined within the bound. On every execution: no pair of conflicting accesses unordered by happens-before, no use after free / double free, schedule-independent set of live blocks, no deadlock, per-operation result digests identical to the operation run alone.',
    level_note='The harness TU is the real library code compiled with -fsanitize=thread; libstdc++ header code is instrumented too, libstdc++.so/libc internals are not (operator new/delete, memcpy/memmove/memset and the guard functions are interposed). Scheduler hand-offs are not happens-before edges. Sequentially consistent interleavings only; under _GLIBCXX_TSAN libstdc++ disables its double-word fast path in shared_ptr release, so that path is not covered. 2-3 threads, 1-2 operations each. A free-running pass of the same bodies under the real ThreadSanitizer runtime (unit tsan-free: all operation pairs, both scalar variants, repeated; thorough: all triples) is a secondary detector for code the instrumentation cannot see; it is not the deciding step.',
    units=c18_units,
    deadline=dict(quick=600, thorough=4200),
    rule='each evaluation is one complete (or state-cache-pruned) execution of a program under one schedule in a forked child; distinct_nontrivial = distinct orders in which the threads performed their synchronisation operations, summed over programs. counters: programs, executions, states, transitions, atomic/guard/plain access counts observed by the runtime.',
    bounds=dict(quick='291 programs: 225 pairs + 37 class-scalar pairs + 18 triples + 10 2x2 programs; every schedule with <= 2 preemptions; unbounded search granted 600 further executions per program',
                thorough='all pairs, all 680 unordered triples, 576 2x2-operation programs; every schedule with <= 2 preemptions; unbounded search granted 8000 further executions per program'),
    guards=dict(func=c18_guard, counters=['programs', 'executions', 'states', 'transitions'], classes=['threads:2:ops:1:variant0', 'threads:3:ops:1:variant0', 'threads:2:ops:2:variant0', 'threads:2:ops:1:variant1']),
    mc_note='states = distinct abstract states at scheduling points (per-thread progress, values observed, vector clocks, contents and clocks of all synchronisation words); transitions = scheduling points executed beyond replayed prefixes; every trace is an execution of the implementation.',
    assumptions=['data-race freedom makes interleavings at synchronisation points sufficient; any data race is itself reported', 'sequential consistency'],
)


# ---- E5 call-sequence units, attached to the properties whose long-lived objects they exercise -------------------------------
def _chain(prev, f):
    return (lambda v: f(v) and prev(v)) if prev else f


for _cid, _doms in dict(C01=['gen'], C02=['eval'], C04=['prim'], C05=['op'], C06=['bf'], C07=['lf'], C17=['quad'], C08=['grid', 'gridd'], C11=['grid', 'gridd'], C13=['grid', 'gridd'], C12=['interp'], C03=['mix']).items():
    _c = CHECKS[_cid]
    _c['units'] = with_seq(_c['units'], *_doms)
    _c['viol_filter'] = _chain(_c.get('viol_filter'), seq_filter(_cid))
    _c['level_text'] += SEQ_TEXT
    _c['rule'] += ' Call-sequence unit (E5): one case per call sequence, non-trivial = length >= 2; counters.calls_executed = calls executed and compared.'
    _c['technique'] += '; plus exhaustive enumeration of call sequences (depth 3, thorough 4) over a menu of calls on long-lived objects, objects on a second grid and temporary grids at reused addresses, each sequence in a pristine process, against the exact reference'
    _c['engine'] = _c.get('engine', 'E1 input enumerator') + ' + E5 call-sequence explorer'
    _c['guards'] = dict(_c['guards'], classes=_c['guards'].get('classes', []) + ['len3', 'repeated-call'], counters=_c['guards'].get('counters', []) + ['calls_executed'])
    _c['bounds'] = dict(quick=_c['bounds']['quick'] + '; call sequences: menu ' + '/'.join(_doms) + ' to depth %d' % SEQ_DEPTH[_doms[0]][0],
                        thorough=_c['bounds']['thorough'] + '; call sequences to depth %d' % SEQ_DEPTH[_doms[0]][1])

_c = CHECKS['C14']
_c['units'] = (lambda prev: (lambda tier: prev(tier) + [seq_unit('mix')] + [seq_unit(d, depths=(3, 3)) for d in ['bf', 'lf', 'op', 'prim', 'gen', 'eval', 'grid', 'interp']]))(_c['units'])
_c['viol_filter'] = _chain(_c.get('viol_filter'), seq_filter('C14'))
_c['engine'] = 'E3 object-pool BFS + E5 call-sequence explorer'
_c['rule'] += ' Call-sequence units (E5): one case per call sequence (non-trivial = length >= 2).'
_c['technique'] += '; plus exhaustive enumeration of call sequences (depth 3, thorough 4-5) on long-lived const objects (forms, operator expressions, generators, splines), each in a pristine process: persistent operands unchanged, results of earlier calls unchanged, every result identical to the same call executed alone'
_c['level_text'] += ' Call sequences (E5): eight menus of 12-29 calls (bilinear and linear forms, operator expressions, primitive operators, generators, evaluation, grids that come and go, and a mixed menu of all kinds; the mixed menu to depth 4 in the thorough tier) on long-lived objects, objects on a second grid and temporary grids at reused addresses, every sequence up to depth 3 in a pristine process; after every call every persistent spline equals its reference state, every result returned earlier in the sequence still has its value, and (mutation-free menus) the result is identical to the same call executed alone in a fresh process - hidden state in const objects, function-local or global tables and scratch buffers would show here.'
_c['guards'] = dict(_c['guards'], classes=_c['guards'].get('classes', []) + ['len3', 'repeated-call'], counters=_c['guards'].get('counters', []) + ['calls_executed'])
_c['bounds'] = dict(quick=_c['bounds']['quick'] + '; call sequences: 8 menus to depth 3', thorough=_c['bounds']['thorough'] + '; call sequences: 8 menus to depth 3, the mixed menu to depth 4')

_c = CHECKS['C09']
_c['units'] = (lambda prev: (lambda tier: prev(tier) + [seq_unit(d, 'san', 'seq-san-' + d, depths=(3, 3)) for d in ['mix', 'bf', 'lf', 'op', 'gen', 'eval', 'grid']]))(_c['units'])
_c['level_text'] += ' The call-sequence menus (E5: long-lived forms, operator expressions, generators, splines; every sequence to depth 3) run under the same sanitizer build.'


# ---- E6 fault-position units ---------------------------------------------------------------------------------------------
def fault_filter(cid, prev):
    def f(v):
        k = v['key']
        if k.startswith('fault:'):
            return k.startswith('fault:' + cid + ':')
        return prev(v) if prev else True
    return f


for _cid in ('C14', 'C10'):
    _c = CHECKS[_cid]
    _c['units'] = (lambda prev: (lambda tier: prev(tier) + [unit('faults', 'seq/faults.cpp', 'exact')]))(_c['units'])
    _c['viol_filter'] = fault_filter(_cid, _c.get('viol_filter'))
    _c['engine'] = _c['engine'] + ' + E6 fault-position explorer'
    _c['rule'] = _c['rule'] + ' Fault-position unit (E6): one case per (operation, target window, operand window, fault kind, fault position k); counters.fault_positions / alloc_fault_positions.'
    _c['guards'] = dict(_c['guards'], classes=_c['guards'].get('classes', []) + ['threw', 'threw:alloc', 'op:t+=a2', 'op:t*=c', 'op:t=t*a0', 'op:t=a2(copy)'], counters=_c['guards'].get('counters', []) + ['fault_positions'])
CHECKS['C14']['level_text'] += ' Fault positions (E6): 18 in-place updates and assignments (copy and move assignment, += -= with same and lower order, *= /=, converting assignment, results of + - * unary minus, operator applications and linearCombination assigned back) on every (target window, operand window) pair of a 5-point grid, each executed once per scalar arithmetic operation it performs with exactly that operation throwing (19 296 executions) and once per allocation it performs with exactly that allocation failing (4 982 executions): a call that throws leaves its target and its operands unchanged.'
CHECKS['C14']['technique'] += '; plus exhaustive single-fault injection: every position at which the scalar arithmetic inside an in-place operation can throw'
CHECKS['C10']['level_text'] += ' Fault positions (E6): the same 18 operations with the k-th scalar arithmetic operation throwing or the k-th allocation failing, for every k: every object is valid after the failed call and the call repeated on the survivors gives the fault-free result.'
CHECKS['C10']['technique'] += '; plus exhaustive single-fault injection into the scalar arithmetic of 16 mutating operations (invariants and usability after the failed call)'
_c = CHECKS['C09']
_c['units'] = (lambda prev: (lambda tier: prev(tier) + [unit('faults-san', 'seq/faults.cpp', 'san')]))(_c['units'])
_c['level_text'] += ' The fault-position explorer (E6: every position of a throwing scalar operation inside 16 mutating operations) runs under the same sanitizer build (unwinding through half-built results).'

# thorough deadlines: the pool fixpoint (about 25 min on a quiet machine) plus the call-sequence units at depth 4
CHECKS['C14']['deadline'] = dict(quick=600, thorough=4500)
CHECKS['C10']['deadline'] = dict(quick=600, thorough=3600)
