// Interface between the (uninstrumented) runtime/explorer and the instrumented
// harness TU of C18.
#pragma once
#include <stddef.h>
#include <stdint.h>

#define VF_MAXT 4  // thread 0 = main (setup/teardown), workers 1..3

extern "C" {
// ---- implemented by the instrumented harness (sched/c18_harness.cpp) ----------
void c18_setup(int variant);              // build the shared const objects and the thread-owned copies (main thread)
uint64_t c18_op(int variant, int op, int tid);  // run operation `op` on behalf of worker `tid` (1..3); returns a digest of all results
void c18_teardown(int variant);           // destroy everything (main thread, after join)
int c18_nops();
const char *c18_opname(int op);

// ---- implemented by the runtime (sched/rt.cpp) ----------------------------------
struct VfPoint {
  uint8_t nenabled;        // number of choices at this point
  uint8_t running_enabled; // 1 if the running thread could have continued (switching away is a preemption)
  uint8_t chosen;
  uint64_t state;          // hash of the abstract state at the point
};
struct VfResult {
  int status;              // 0 ok, 1 pruned (reached a visited state), 2 deadlock, 3 divergence while replaying the prefix
  int npoints;
  VfPoint points[4096];
  uint64_t digest[VF_MAXT];  // per-worker result digest (all operations)
  uint64_t opdigest[VF_MAXT][4];  // per-worker, per-operation result digest
  uint64_t sync_order;     // hash of the order in which the threads performed their synchronisation operations
  int nraces;              // conflicting access pairs unordered by happens-before (first one described below)
  int nmemerr;             // use after free / double free / free racing with an access
  long live_blocks;        // blocks allocated since reset that are still live after teardown
  long reads, writes, atomics, guards, allocs;
  char what[1024];         // description of the first violation
};
// child side
void vf_rt_reset(const uint8_t *prefix, int prefix_len, int (*visited)(uint64_t state, int preemptions_used, void *ctx), void *ctx);
void vf_rt_spawn(void (*fn)(void *), void *arg, int tid);
void vf_rt_run(void);                       // runs the concurrent phase to completion under the schedule
void vf_rt_set_digest(int tid, uint64_t d);
void vf_rt_set_opdigest(int tid, int k, uint64_t d);
VfResult *vf_rt_finish(void);               // after teardown; fills and returns the result
void vf_rt_observe(uint64_t v);             // fold a value into the calling thread's observation hash
}
