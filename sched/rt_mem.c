/* Memory intrinsics, defined in the executable so that copies made by compiler-
 * generated calls and by libstdc++ are visible to the race detector. Built with
 * -fno-builtin -fno-tree-loop-distribute-patterns (otherwise the loops below are
 * turned back into calls of themselves). */
#include <stddef.h>
void vf_rt_range(const void *a, size_t n, int is_write);
void *memcpy(void *d, const void *s, size_t n) {
  vf_rt_range(s, n, 0);
  vf_rt_range(d, n, 1);
  unsigned char *dd = (unsigned char *)d;
  const unsigned char *ss = (const unsigned char *)s;
  for (size_t i = 0; i < n; i++) dd[i] = ss[i];
  return d;
}
void *memmove(void *d, const void *s, size_t n) {
  vf_rt_range(s, n, 0);
  vf_rt_range(d, n, 1);
  unsigned char *dd = (unsigned char *)d;
  const unsigned char *ss = (const unsigned char *)s;
  if (dd < ss) for (size_t i = 0; i < n; i++) dd[i] = ss[i];
  else for (size_t i = n; i > 0; i--) dd[i - 1] = ss[i - 1];
  return d;
}
void *memset(void *d, int c, size_t n) {
  vf_rt_range(d, n, 1);
  unsigned char *dd = (unsigned char *)d;
  for (size_t i = 0; i < n; i++) dd[i] = (unsigned char)c;
  return d;
}
