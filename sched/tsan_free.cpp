// Secondary detector for C18: the same harness bodies under the REAL ThreadSanitizer
// runtime, free-running (no scheduler, so its own happens-before tracking is not
// blinded by hand-offs). It sees what our instrumentation-based runtime cannot:
// accesses inside libstdc++.so / libc. Not the deciding step.
#include <atomic>
#include <thread>
#include <vector>

#define VF_NO_ASAN_HOOK
#include "harness.h"
#include "rt.h"

static std::atomic<long> g_reports{0};
extern "C" void __tsan_on_report(void *) { g_reports++; }
extern "C" const char *__tsan_default_options() { return "halt_on_error=0:exitcode=0:report_signal_unsafe=0"; }
// the harness TU refers to these (our runtime's helpers); no-ops here
extern "C" void vf_rt_observe(uint64_t) {}

int main(int argc, char **argv) {
  vf::Harness H("C18", argc, argv);
  const int N = c18_nops();
  int reps = H.thorough() ? 5 : 2;
  for (int variant = 0; variant < 2; variant++)
    for (int a = 0; a < N; a++)
      for (int b = 0; b < N; b++)
        for (int c = -1; c < (H.thorough() ? N : 0); c++)
          for (int r = 0; r < reps; r++) {
            if (!H.take()) continue;
            H.begin(std::string("tsan-free;v=") + std::to_string(variant) + ";" + c18_opname(a) + "|" + c18_opname(b) + (c >= 0 ? std::string("|") + c18_opname(c) : "") + ";rep" + std::to_string(r));
            long before = g_reports;
            c18_setup(variant);
            std::atomic<int> go{0};
            uint64_t d[3] = {0, 0, 0};
            std::vector<std::thread> th;
            auto body = [&](int tid, int op) { while (!go.load()) {} d[tid - 1] = c18_op(variant, op, tid); };
            th.emplace_back(body, 1, a);
            th.emplace_back(body, 2, b);
            if (c >= 0) th.emplace_back(body, 3, c);
            go = 1;
            for (auto &t : th) t.join();
            c18_teardown(variant);
            if (g_reports > before) H.fail("tsan-report", "ThreadSanitizer reported " + std::to_string(g_reports - before) + " issue(s) in this free-running execution (see stderr of the unit)");
            H.cls("tsan-free");
            H.nontriv();
            H.end();
          }
  H.count("tsan_free_runs", H.evaluations);
  return H.finish();
}
