// C18 schedule explorer (uninstrumented). For every program (2-3 threads, 1-2
// operations each) it explores the interleavings at all synchronisation points:
// iterative preemption bounding 0,1,2, then unbounded depth-first search with
// state caching. Every execution runs in a forked child on real pthreads under
// the scheduler of sched/rt.cpp; the parent only chooses schedules and judges.
#include <sys/wait.h>
#include <unistd.h>

#include <algorithm>
#include <map>
#include <set>
#include <string>
#include <unordered_map>
#include <vector>

#define VF_NO_ASAN_HOOK
#include "harness.h"
#include "rt.h"
extern "C" void vf_rt_set_abort(void (*cb)(VfResult *));

using vf::Harness;

struct Program {
  int variant;
  std::vector<std::vector<int>> ops;  // per worker (index 0 -> T1)
  std::string str() const {
    std::string s = "v=" + std::to_string(variant) + ";prog=";
    for (size_t t = 0; t < ops.size(); t++) {
      s += (t ? "|" : "");
      for (size_t k = 0; k < ops[t].size(); k++) s += (k ? "," : "") + std::string(c18_opname(ops[t][k]));
    }
    return s;
  }
};

struct Exec {
  bool crashed = false;
  int sig = 0;
  VfResult r;
  std::vector<uint8_t> choices() const {
    std::vector<uint8_t> c;
    for (int i = 0; i < r.npoints; i++)
      if (r.points[i].chosen != 255) c.push_back(r.points[i].chosen);
    return c;
  }
};

// ---- child side ------------------------------------------------------------------
// ---- execution service ----------------------------------------------------------------
// Every execution runs in a freshly forked child of a pristine "zygote" process that is
// forked from the explorer before anything has run: function-local statics, lazily
// initialised globals and libstdc++'s single-threaded shortcuts are in their initial
// state in every execution, and the fork is cheap because the zygote stays small.
struct Request {
  int variant, nthreads, nops[3], ops[3][4], prefix_len;
  uint8_t prefix[4096];
};
struct Trailer { int status; };  // waitpid status of the child
static int g_req_w = -1, g_res_r = -1;  // parent side
static int g_res_w = -1;                // child side
static const Program *g_prog;
static void wr(int fd, const void *p, size_t n) {
  size_t done = 0;
  while (done < n) {
    ssize_t k = write(fd, (const char *)p + done, n - done);
    if (k <= 0) _exit(90);
    done += (size_t)k;
  }
}
static bool rd(int fd, void *p, size_t n) {
  size_t got = 0;
  while (got < n) {
    ssize_t k = read(fd, (char *)p + got, n - got);
    if (k <= 0) return false;
    got += (size_t)k;
  }
  return true;
}
static void send_result(VfResult *r) {
  char tag = 'R';
  wr(g_res_w, &tag, 1);
  wr(g_res_w, r, offsetof(VfResult, points));
  wr(g_res_w, r->points, sizeof(VfPoint) * (size_t)r->npoints);
  wr(g_res_w, (char *)r + offsetof(VfResult, digest), sizeof(VfResult) - offsetof(VfResult, digest));
}
static void abort_cb(VfResult *r) {
  send_result(r);
  _exit(0);
}
struct WArg { int tid; };
static WArg g_wargs[VF_MAXT];
static void worker(void *p) {
  int tid = ((WArg *)p)->tid;
  uint64_t d = 1469598103934665603ull;
  int k = 0;
  for (int op : g_prog->ops[tid - 1]) {
    uint64_t x = c18_op(g_prog->variant, op, tid);
    vf_rt_set_opdigest(tid, k++, x);
    d = (d ^ x) * 1099511628211ull;
  }
  vf_rt_set_digest(tid, d);
}
static void child_run(const Request &q) {
  static Program P;
  P.variant = q.variant;
  P.ops.clear();
  for (int t = 0; t < q.nthreads; t++) P.ops.push_back(std::vector<int>(q.ops[t], q.ops[t] + q.nops[t]));
  g_prog = &P;
  vf_rt_set_abort(abort_cb);
  vf_rt_reset(q.prefix, q.prefix_len, nullptr, nullptr);
  c18_setup(P.variant);
  for (size_t t = 0; t < P.ops.size(); t++) {
    g_wargs[t + 1].tid = (int)t + 1;
    vf_rt_spawn(worker, &g_wargs[t + 1], (int)t + 1);
  }
  vf_rt_run();
  c18_teardown(P.variant);
  send_result(vf_rt_finish());
  _exit(0);
}
static void start_zygote() {
  int req[2], res[2];
  if (pipe(req) != 0 || pipe(res) != 0) { perror("pipe"); exit(3); }
  fflush(nullptr);
  pid_t z = fork();
  if (z == 0) {
    close(req[1]);
    close(res[0]);
    g_res_w = res[1];
    static Request q;
    while (rd(req[0], &q, offsetof(Request, prefix)) && rd(req[0], q.prefix, (size_t)q.prefix_len)) {
      pid_t c = fork();
      if (c == 0) child_run(q);
      int st = 0;
      waitpid(c, &st, 0);
      char tag = 'T';
      Trailer t{st};
      wr(g_res_w, &tag, 1);
      wr(g_res_w, &t, sizeof t);
    }
    _exit(0);
  }
  close(req[0]);
  close(res[1]);
  g_req_w = req[1];
  g_res_r = res[0];
}

static Exec run_one(const Program &P, const std::vector<uint8_t> &prefix) {
  Exec e;
  static Request q;
  q.variant = P.variant;
  q.nthreads = (int)P.ops.size();
  for (size_t t = 0; t < P.ops.size(); t++) {
    q.nops[t] = (int)P.ops[t].size();
    for (size_t k = 0; k < P.ops[t].size(); k++) q.ops[t][k] = P.ops[t][k];
  }
  q.prefix_len = (int)prefix.size();
  if (q.prefix_len > 4096) { fprintf(stderr, "prefix too long\n"); exit(3); }
  memcpy(q.prefix, prefix.data(), prefix.size());
  wr(g_req_w, &q, offsetof(Request, prefix));
  wr(g_req_w, q.prefix, prefix.size());
  memset(&e.r, 0, sizeof e.r);
  bool have = false;
  while (true) {
    char tag;
    if (!rd(g_res_r, &tag, 1)) { fprintf(stderr, "execution service died\n"); exit(3); }
    if (tag == 'R') {
      bool ok = rd(g_res_r, &e.r, offsetof(VfResult, points));
      if (ok && e.r.npoints >= 0 && e.r.npoints <= 4096) ok = rd(g_res_r, e.r.points, sizeof(VfPoint) * (size_t)e.r.npoints);
      if (ok) ok = rd(g_res_r, (char *)&e.r + offsetof(VfResult, digest), sizeof(VfResult) - offsetof(VfResult, digest));
      if (!ok) { fprintf(stderr, "short result\n"); exit(3); }
      have = true;
    } else {
      Trailer t;
      rd(g_res_r, &t, sizeof t);
      if (!have || !WIFEXITED(t.status) || WEXITSTATUS(t.status) != 0) {
        e.crashed = true;
        e.sig = WIFSIGNALED(t.status) ? WTERMSIG(t.status) : -WEXITSTATUS(t.status);
      }
      break;
    }
  }
  return e;
}

static std::string sched_str(const std::vector<uint8_t> &c) {
  std::string s;
  for (size_t i = 0; i < c.size(); i++) s += (i ? "." : "") + std::to_string((int)c[i]);
  return s;
}

static std::unordered_map<uint64_t, int> *g_visited;
static int g_bound = 0;
struct Stats {
  long executions = 0, pruned = 0, transitions = 0;
  std::string last_schedule;
  std::set<uint64_t> sync_orders, states;
  std::set<std::string> outcomes;
  int completed_bound = -1;
  bool unbounded_complete = false;
};

static std::map<std::pair<int, int>, uint64_t> g_solo;  // (variant, op) -> digest of the operation run alone
static uint64_t solo_digest(int variant, int op) {
  auto key = std::make_pair(variant, op);
  auto it = g_solo.find(key);
  if (it != g_solo.end()) return it->second;
  Program P{variant, {{op}}};
  Exec e = run_one(P, {});
  if (e.crashed || e.r.status != 0) { fprintf(stderr, "solo run of op %d failed\n", op); exit(3); }
  uint64_t d = e.r.opdigest[1][0];
  // determinism of the reference itself
  Exec e2 = run_one(P, {});
  if (e2.r.opdigest[1][0] != d) { fprintf(stderr, "solo run of op %d is not deterministic\n", op); exit(3); }
  g_solo[key] = d;
  return d;
}

// returns "" if the execution is fine, else a description of the violation
static std::string judge(const Program &P, const Exec &e, long ref_live) {
  if (e.crashed) return "process died (signal/exit " + std::to_string(e.sig) + ") under this schedule";
  if (e.r.status == 2) return std::string("deadlock: ") + e.r.what;
  if (e.r.status == 3) return std::string("DIVERGED: ") + e.r.what;
  if (e.r.status == 4) return "more than 4096 scheduling points";
  if (e.r.nraces > 0 || e.r.nmemerr > 0) return std::string(e.r.what) + " (" + std::to_string(e.r.nraces) + " racy granules, " + std::to_string(e.r.nmemerr) + " memory errors)";
  if (e.r.status == 1) return "";  // pruned: reached a state whose futures are already covered
  for (size_t t = 0; t < P.ops.size(); t++) {
    for (size_t k = 0; k < P.ops[t].size(); k++)
      if (e.r.opdigest[t + 1][k] != solo_digest(P.variant, P.ops[t][k]))
        return "thread T" + std::to_string(t + 1) + ", operation '" + c18_opname(P.ops[t][k]) + "': results differ bit-wise from a sequential run of the same operation";
  }
  if (ref_live >= 0 && e.r.live_blocks != ref_live) return "number of live heap blocks after teardown depends on the schedule (" + std::to_string(e.r.live_blocks) + " vs " + std::to_string(ref_live) + ")";
  return "";
}

static bool explore(Harness &H, const Program &P, int bound, Stats &S, long max_exec, long &ref_live, bool &violated) {
  g_bound = bound;
  std::vector<std::vector<uint8_t>> stack{{}};
  while (!stack.empty()) {
    if (S.executions >= max_exec || H.elapsed() > H.deadline_s) return false;
    std::vector<uint8_t> prefix = stack.back();
    stack.pop_back();
    Exec e = run_one(P, prefix);
    S.executions++;
    if (ref_live < 0 && !e.crashed && e.r.status == 0) ref_live = e.r.live_blocks;
    std::string v = judge(P, e, ref_live);
    if (!e.crashed) {
      H.count("plain_reads", e.r.reads);
      H.count("plain_writes", e.r.writes);
      H.count("atomic_ops", e.r.atomics);
      H.count("guard_ops", e.r.guards);
      if (e.r.status == 0) { S.sync_orders.insert(e.r.sync_order); S.outcomes.insert(std::to_string(e.r.digest[1]) + "/" + std::to_string(e.r.digest[2]) + "/" + std::to_string(e.r.digest[3])); }
    }
    if (!v.empty()) {
      // replay the complete schedule twice before reporting; any difference is a hard error of the harness
      std::vector<uint8_t> full = e.crashed ? prefix : e.choices();
      Exec r1 = run_one(P, full), r2 = run_one(P, full);
      std::string v1 = judge(P, r1, ref_live), v2 = judge(P, r2, ref_live);
      H.begin(P.str() + ";sched=" + sched_str(full));
      if (v1 != v2 || v1.empty()) {
        H.fail("nondeterministic-replay", "schedule does not replay deterministically: '" + v + "' / '" + v1 + "' / '" + v2 + "'");
      } else {
        std::string key = e.crashed ? "crash" : e.r.status == 2 ? "deadlock" : e.r.status == 3 ? "divergence" : (e.r.nraces > 0 ? "data-race" : e.r.nmemerr > 0 ? "memory-error" : "result-differs");
        H.fail(key, v1 + " [preemption bound " + std::to_string(bound) + ", " + std::to_string(full.size()) + " scheduling points]");
      }
      H.end();
      violated = true;
      return true;  // first (minimal-bound) counterexample of this program is enough
    }
    if (e.crashed) continue;
    S.last_schedule = sched_str(e.choices());
    int used = 0;
    bool pruned_here = false;
    std::vector<uint8_t> ch;
    for (int i = 0; i < e.r.npoints; i++) {
      const VfPoint &p = e.r.points[i];
      if (i >= (int)prefix.size()) {
        S.transitions++;
        S.states.insert(p.state);
        int rem = bound - used;
        int &best = (*g_visited)[p.state];
        // values are stored as (remaining preemption budget + 1), 0 = never seen; a state is covered if it was
        // expanded before with at least the budget that remains now: the rest of this execution adds nothing
        if (best >= rem + 1) { pruned_here = true; break; }
        best = rem + 1;
        for (int alt = 1; alt < p.nenabled; alt++) {
          int cost = used + (p.running_enabled ? 1 : 0);
          if (cost > bound) continue;
          std::vector<uint8_t> np = ch;
          np.push_back((uint8_t)alt);
          stack.push_back(np);
        }
      }
      ch.push_back(p.chosen);
      if (p.running_enabled && p.chosen != 0) used++;
    }
    if (pruned_here) S.pruned++;
  }
  return true;
}

int main(int argc, char **argv) {
  Harness H("C18", argc, argv);
  start_zygote();  // before anything else has run or been allocated
  const int NOPS = c18_nops();
  bool th = H.thorough();
  std::vector<Program> progs;
  // variant 0 (double): all ordered pairs of operations
  for (int a = 0; a < NOPS; a++)
    for (int b = 0; b < NOPS; b++) progs.push_back({0, {{a}, {b}}});
  // variant 1 (class-type scalar, guarded function-local static): pairs involving isZero, copies and destruction
  for (int a : {6, 1, 7, 2, 5})
    for (int b : {6, 1, 7, 3, 4}) progs.push_back({1, {{a}, {b}}});
  // ... and every operation against itself (two threads inside the same kernel: scratch storage selected for "heavy" scalars)
  for (int a = 0; a < NOPS; a++)
    if (a != 6 && a != 1 && a != 7) progs.push_back({1, {{a}, {a}}});
  // three threads
  std::vector<std::vector<int>> triples;
  if (th) {
    for (int a = 0; a < NOPS; a++) for (int b = a; b < NOPS; b++) for (int c = b; c < NOPS; c++) triples.push_back({a, b, c});
  } else {
    triples = {{1, 1, 7}, {7, 7, 7}, {6, 6, 6}, {1, 7, 2}, {0, 1, 7}, {5, 7, 1}, {3, 4, 7}, {2, 6, 7}, {1, 1, 1}, {8, 1, 7}, {9, 9, 9}, {9, 1, 7}, {10, 10, 10}, {10, 3, 5}, {11, 11, 7}};
  }
  for (auto &t : triples) progs.push_back({0, {{t[0]}, {t[1]}, {t[2]}}});
  for (auto &t : std::vector<std::vector<int>>{{6, 6, 6}, {6, 1, 7}, {7, 7, 6}}) progs.push_back({1, {{t[0]}, {t[1]}, {t[2]}}});
  // two threads x two operations
  if (th) {
    // all two-operation sequences over the operations that copy, destroy or lazily initialise something
    const int SUB[] = {1, 2, 6, 7, 9};
    for (int a : SUB) for (int b : SUB) for (int c : SUB) for (int d : SUB) {
      if ((a == 7 && b == 7) || (c == 7 && d == 7)) continue;  // an owned copy can be destroyed once
      progs.push_back({0, {{a, b}, {c, d}}});
    }
  } else {
    for (auto &q : std::vector<std::vector<int>>{{1, 7, 7, 1}, {7, 1, 1, 7}, {6, 7, 7, 6}, {2, 7, 1, 3}, {1, 1, 1, 1}, {0, 7, 5, 7}, {4, 7, 7, 2}, {8, 7, 1, 6}}) progs.push_back({0, {{q[0], q[1]}, {q[2], q[3]}}});
    for (auto &q : std::vector<std::vector<int>>{{6, 7, 7, 6}, {1, 6, 6, 7}}) progs.push_back({1, {{q[0], q[1]}, {q[2], q[3]}}});
  }

  // replay of one recorded schedule
  if (H.args.count("desc") && !H.args["desc"].empty() && H.only >= -1 && H.args["desc"].find("sched=") != std::string::npos) {
    const std::string &d = H.args["desc"];
    std::string ps = d.substr(0, d.find(";sched="));
    std::string ss = d.substr(d.find(";sched=") + 7);
    std::vector<uint8_t> sched;
    for (size_t pos = 0; pos < ss.size();) {
      size_t e = ss.find('.', pos);
      if (e == std::string::npos) e = ss.size();
      sched.push_back((uint8_t)atoi(ss.substr(pos, e - pos).c_str()));
      pos = e + 1;
    }
    for (auto &P : progs)
      if (P.str() == ps) {
        g_visited = new std::unordered_map<uint64_t, int>();
        Exec e = run_one(P, sched);
        std::string v = judge(P, e, -1);
        H.begin(d);
        H.evaluations = 1;
        fprintf(stderr, "[replay] %s -> %s\n", d.c_str(), v.empty() ? "ok" : v.c_str());
        if (!v.empty()) H.fail(e.crashed ? "crash" : e.r.nraces ? "data-race" : e.r.nmemerr ? "memory-error" : e.r.status == 2 ? "deadlock" : "result-differs", v);
        H.end();
        return H.finish();
      }
    fprintf(stderr, "program not found: %s\n", ps.c_str());
    return 3;
  }

  const long MAXEXEC_BOUNDED = 400000;             // bounds 0,1,2 are expected to complete
  const long MAXEXEC_UNBOUNDED = th ? 8000 : 600; // extra executions granted to the unbounded search
  bool any_incomplete = false;
  for (auto &P : progs) {
    if (H.elapsed() > H.deadline_s) { any_incomplete = true; break; }
    if (!H.take()) continue;
    g_visited = new std::unordered_map<uint64_t, int>();
    Stats S;
    long ref_live = -1;
    bool violated = false;
    bool done = true;
    // iterative preemption bounding, then unbounded search (bound 255) with the same state cache
    for (int bound : {0, 1, 2, 255}) {
      done = explore(H, P, bound, S, bound < 255 ? MAXEXEC_BOUNDED : S.executions + MAXEXEC_UNBOUNDED, ref_live, violated);
      if (violated || !done) break;
      if (bound < 255) S.completed_bound = bound;
      else S.unbounded_complete = true;
    }
    delete g_visited;
    H.evaluations += S.executions;  // every execution is a case (a schedule of a program)
    H.nontrivial += (long)S.sync_orders.size();
    H.count("programs");
    H.count("executions", S.executions);
    H.count("executions_pruned_by_state_cache", S.pruned);
    H.count("states", (long)S.states.size());
    H.count("transitions", S.transitions);
    H.count("traces_validated_against_impl", S.executions);
    H.count("distinct_sync_orders", (long)S.sync_orders.size());
    if (S.unbounded_complete) H.count("programs_explored_exhaustively");
    else H.count("programs_where_unbounded_search_was_capped");
    if (S.completed_bound >= 2 || violated) H.count("programs_complete_up_to_preemption_bound_2");
    else any_incomplete = true;
    if (P.ops.size() >= 2 && S.sync_orders.size() <= 1 && !violated) H.count("programs_with_single_sync_order");
    H.counters["max:distinct_outcomes_per_program"] = std::max<long>(H.counters["max:distinct_outcomes_per_program"], (long)S.outcomes.size());
    H.counters["max:executions_per_program"] = std::max<long>(H.counters["max:executions_per_program"], S.executions);
    H.cls(std::string("threads:") + std::to_string(P.ops.size()) + ":ops:" + std::to_string(P.ops[0].size()) + ":variant" + std::to_string(P.variant));
    if (H.samples.size() < 6) H.samples.push_back(P.str() + ": " + std::to_string(S.executions) + " executions, " + std::to_string(S.states.size()) + " states, " + std::to_string(S.sync_orders.size()) + " distinct synchronisation orders, completed preemption bound " + std::to_string(S.completed_bound) + (S.unbounded_complete ? ", unbounded search complete" : ", unbounded search capped") + "; last schedule explored (choice index at each scheduling point): " + S.last_schedule);
  }
  if (any_incomplete) H.capped = true;
  return H.finish();
}
