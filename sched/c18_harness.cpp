// C18 harness bodies (INSTRUMENTED: compiled with -fsanitize=thread, linked
// against sched/rt.cpp). Shared const objects are built by the main thread;
// worker threads run operations from a menu of const member calls, copies and
// destructions of objects sharing one grid.
#include <bspline/Core.h>
#include <bspline/integration/numerical.h>

#include <cstring>
#include <memory>
#include <optional>

#include "rt.h"
using namespace bspline;
using namespace bspline::operators;

// class-type scalar whose conversion from int is not a constant expression, so that
// function-local statics of type T (Spline::isZero) need a dynamic-initialisation guard; it is deliberately NOT trivially
// copyable / destructible (user-provided copy operations and destructor), like the multiprecision types the README
// advertises: code paths selected by std::is_trivially_copyable / is_arithmetic for "heavy" scalars are taken with it
struct Dbl {
  double v;
  Dbl() : v(0) {}
  Dbl(const Dbl &o) : v(o.v) {}
  Dbl &operator=(const Dbl &o) { v = o.v; return *this; }
  ~Dbl() {}
  __attribute__((noinline)) Dbl(int i) : v(i) { asm volatile("" ::: "memory"); }
  static Dbl from(double d) { Dbl r; r.v = d; return r; }
  Dbl &operator+=(const Dbl &o) { v += o.v; return *this; }
  Dbl &operator-=(const Dbl &o) { v -= o.v; return *this; }
  Dbl &operator*=(const Dbl &o) { v *= o.v; return *this; }
  Dbl &operator/=(const Dbl &o) { v /= o.v; return *this; }
  friend Dbl operator+(Dbl a, const Dbl &b) { return a += b; }
  friend Dbl operator-(Dbl a, const Dbl &b) { return a -= b; }
  friend Dbl operator*(Dbl a, const Dbl &b) { return a *= b; }
  friend Dbl operator/(Dbl a, const Dbl &b) { return a /= b; }
  friend Dbl operator-(const Dbl &a) { Dbl r; r.v = -a.v; return r; }
  friend bool operator<(const Dbl &a, const Dbl &b) { return a.v < b.v; }
  friend bool operator<=(const Dbl &a, const Dbl &b) { return a.v <= b.v; }
  friend bool operator>(const Dbl &a, const Dbl &b) { return a.v > b.v; }
  friend bool operator>=(const Dbl &a, const Dbl &b) { return a.v >= b.v; }
  friend bool operator==(const Dbl &a, const Dbl &b) { return a.v == b.v; }
  friend bool operator!=(const Dbl &a, const Dbl &b) { return a.v != b.v; }
};
static_assert(!std::is_trivially_copyable_v<Dbl> && !std::is_trivially_destructible_v<Dbl> && !std::is_arithmetic_v<Dbl>);
static double dv(double x) { return x; }
static double dv(const Dbl &x) { return x.v; }
template <class T> static T mk(double x) { if constexpr (std::is_same_v<T, Dbl>) return Dbl::from(x); else return T(x); }

struct Dig {
  uint64_t h = 1469598103934665603ull;
  void bytes(const void *p, size_t n) { const unsigned char *b = (const unsigned char *)p; for (size_t i = 0; i < n; i++) { h ^= b[i]; h *= 1099511628211ull; } }
  template <class T> void val(const T &x) { double d = dv(x); bytes(&d, sizeof d); }
  void u(uint64_t x) { bytes(&x, sizeof x); }
  template <class T, size_t o> void spline(const Spline<T, o> &s) {
    u(s.getSupport().getStartIndex());
    u(s.getSupport().getEndIndex());
    for (auto &a : s.getCoefficients()) for (auto &c : a) val(c);
  }
};

template <class T>
struct World {
  using S2 = Spline<T, 2>;
  using OpE = decltype((X<1>{} * Dx<1>{} + SplineOperator{std::declval<S2>()}));
  using BF = integration::BilinearForm<Dx<1>, OpE>;
  using LF = integration::LinearForm<OpE>;
  std::optional<support::Grid<T>> grid;
  std::unique_ptr<const S2> a, b;
  std::optional<support::Grid<T>> biggrid;
  std::unique_ptr<const S2> big;  // a long spline (70 intervals): size-dependent strategies and caches
  std::unique_ptr<const BSplineGenerator<T>> gen;
  std::unique_ptr<const OpE> opexpr;
  std::unique_ptr<const BF> bf;
  std::unique_ptr<const LF> lf;
  std::unique_ptr<const support::Support<T>> sup;
  std::unique_ptr<S2> owned[VF_MAXT];             // thread-owned copies sharing the grid: destroyed inside the concurrent phase
  std::unique_ptr<support::Support<T>> owned_sup[VF_MAXT];
  std::unique_ptr<const S2> on_copy[VF_MAXT];     // per thread: a spline on its own grid object holding the same points

  static S2 make(const support::Grid<T> &g, size_t s, size_t e, int variant) {
    std::vector<std::array<T, 3>> c;
    for (size_t i = s; i + 1 < e; i++) c.push_back({mk<T>(0.5 + i + variant), mk<T>(-1.25 * (i + 1)), mk<T>(0.375 * variant + 1)});
    return S2(support::Support<T>(g, s, e), std::move(c));
  }
  void setup() {
    std::vector<T> pts{mk<T>(-2), mk<T>(-1), mk<T>(0), mk<T>(0.5), mk<T>(2), mk<T>(3)};
    grid.emplace(pts);
    a.reset(new S2(make(*grid, 0, 6, 0)));
    b.reset(new S2(make(*grid, 1, 5, 1)));
    gen.reset(new BSplineGenerator<T>(std::vector<T>{mk<T>(-2), mk<T>(-1), mk<T>(-1), mk<T>(0)}));  // own 3-point grid, one repeated knot
    opexpr.reset(new OpE(X<1>{} * Dx<1>{} + SplineOperator{*b}));
    bf.reset(new BF(Dx<1>{}, X<1>{} * Dx<1>{} + SplineOperator{*b}));
    lf.reset(new LF(X<1>{} * Dx<1>{} + SplineOperator{*b}));
    sup.reset(new support::Support<T>(*grid, 1, 4));
    {
      std::vector<T> bp;
      for (int i = 0; i <= 70; i++) bp.push_back(mk<T>(-10 + 0.25 * i + 0.001 * i * i));
      biggrid.emplace(bp);
      big.reset(new S2(make(*biggrid, 0, 71, 3)));
    }
    for (int t = 1; t < VF_MAXT; t++) {
      owned[t].reset(new S2(*a));
      owned_sup[t].reset(new support::Support<T>(*sup));
      support::Grid<T> gcopy(pts);  // distinct storage, logically equal grid
      on_copy[t].reset(new S2(make(gcopy, 1, 6, 2)));
    }
  }
  void teardown() {
    for (int t = 1; t < VF_MAXT; t++) { owned[t].reset(); owned_sup[t].reset(); on_copy[t].reset(); }
    big.reset(); biggrid.reset();
    sup.reset(); lf.reset(); bf.reset(); opexpr.reset(); gen.reset(); b.reset(); a.reset(); grid.reset();
  }
  uint64_t op(int o, int tid) {
    Dig d;
    switch (o) {
      case 0: {  // evaluate
        d.val((*a)(mk<T>(0.3)));
        d.val((*b)(mk<T>(0.75)));
        d.val((*a)(mk<T>(-5)));
        d.val(a->front());
        d.val(b->back());
        // a long shared spline, evaluated in intervals that depend on the thread
        // (same set of abscissae for every thread, visited in an order that depends on the thread; the digest is
        // order-independent so that it can be compared with the sequential run)
        {
          static const double X[5] = {-9.9, -3.7, 1.3, 5.3, -9.85};
          uint64_t acc = 0;
          for (int k = 0; k < 5; k++) {
            int idx = (k + 2 * tid) % 5;
            Dig e;
            e.u((uint64_t)idx);
            e.val((*big)(mk<T>(X[idx])));
            acc += e.h;
          }
          d.u(acc);
        }
        break;
      }
      case 1: {  // copy + destroy
        S2 c(*a);
        d.spline(c);
        support::Support<T> s2(*sup);
        d.u(s2.size());
        support::Grid<T> g2(*grid);
        d.u(g2.size());
        break;
      }
      case 2: {  // combine
        d.spline(*a + *b);
        d.spline(*a * *b);
        d.u(a->checkOverlap(*b));
        d.u(*a == *b);
        break;
      }
      case 3: {  // transform with a shared operator expression (contains a spline factor)
        d.spline(*opexpr * *a);
        break;
      }
      case 4: {  // integrate
        d.val((*bf)(*a, *b));
        d.val((*lf)(*a));
        d.val(integration::ScalarProduct{}(*a, *b));
        break;
      }
      case 5: {  // generate from the shared generator
        auto v = gen->template generateBSplines<1>();
        for (auto &s : v) d.spline(s);
        d.u(gen->getGrid().size());
        break;
      }
      case 6: {  // isZero: first call initialises the function-local static
        d.u(a->isZero());
        d.u(b->isZero());
        break;
      }
      case 7: {  // destroy the thread-owned copies (release of references to the shared grid)
        d.spline(*owned[tid]);
        owned[tid].reset();
        owned_sup[tid].reset();
        break;
      }
      case 9: {  // combine shared const objects with a spline living on an equal grid held in a distinct object
        d.spline(*a * *on_copy[tid]);
        d.val(integration::ScalarProduct{}(*a, *on_copy[tid]));
        d.u(a->getSupport() == on_copy[tid]->getSupport());
        break;
      }
      case 10: {  // higher powers of the position operator (binomial / factorial helpers), derivative operators
        d.spline(X<2>{} * *a);
        d.spline(X<4>{} * *b);
        d.spline(Dx<2>{} * *a);
        break;
      }
      case 11: {  // linear combination of shared const splines, numerical quadrature, interval-free results
        if constexpr (std::is_same_v<T, double>) {
          std::vector<T> cs{mk<T>(2), mk<T>(-0.5)};
          std::vector<S2> v{*a, *b};
          d.spline(linearCombination(cs, v));
          d.val(integration::integrate<3>([](const T &x) { return x * x; }, *a, *b));
        } else {
          std::vector<T> cs{mk<T>(2), mk<T>(-0.5)};
          std::vector<S2> v{*a, *b};
          d.spline(linearCombination(cs.begin(), cs.end(), v.begin(), v.end()));
        }
        d.spline(*a * S2(*grid));
        break;
      }
      case 12: {  // move the thread-owned copy around (move construction / assignment of objects sharing the grid), grid data handle
        S2 t(std::move(*owned[tid]));
        d.u(owned[tid]->getSupport().size());
        *owned[tid] = std::move(t);
        d.spline(*owned[tid]);
        auto data = grid->getData();  // copy of the shared_ptr to the grid points
        d.u(data->size());
        support::Grid<T> g3(data);    // a new Grid object over the same storage (validates the points again)
        d.u(g3 == *grid);
        break;
      }
      case 13: {  // copy + use + destroy generators, operator expressions (spline factor inside) and forms
        BSplineGenerator<T> g2(*gen);
        d.u(g2.getGrid().size());
        auto v = g2.template generateBSplines<1>();
        d.u(v.size());
        OpE e2(*opexpr);
        d.spline(e2 * *b);
        BF f2(*bf);
        d.val(f2(*a, *b));
        LF l2(*lf);
        d.val(l2(*b));
        break;
      }
      case 14: {  // build thread-private objects from scratch: new grid storage, generator, basis (as the project's accuracy study does per thread)
        std::vector<T> k{mk<T>(-1), mk<T>(0), mk<T>(0), mk<T>(0.5), mk<T>(2), mk<T>(4)};
        BSplineGenerator<T> g2(k);
        auto v = g2.template generateBSplines<2>();
        d.u(v.size());
        d.u(g2.getGrid().size());
        support::Grid<T> own(std::vector<T>{mk<T>(0), mk<T>(1), mk<T>(3)});
        S2 s(support::Support<T>(own, 0, 3), std::vector<std::array<T, 3>>{{mk<T>(1), mk<T>(2), mk<T>(3)}, {mk<T>(-1), mk<T>(0.5), mk<T>(0)}});
        d.val(s(mk<T>(2)));
        d.val(integration::ScalarProduct{}(s, s));
        break;
      }
      case 8: {  // support algebra on shared const supports
        auto u1 = sup->calcUnion(a->getSupport());
        auto i1 = sup->calcIntersection(b->getSupport());
        d.u(u1.getStartIndex()); d.u(u1.getEndIndex()); d.u(i1.getStartIndex()); d.u(i1.getEndIndex());
        d.u(*sup == b->getSupport());
        break;
      }
    }
    return d.h;
  }
};

static World<double> *w0;
static World<Dbl> *w1;
static const char *OPN[] = {"evaluate", "copy+destroy", "combine", "transform", "integrate", "generate", "isZero", "destroy-owned", "support-algebra", "combine-with-equal-grid-copy", "position-powers", "lincomb+quadrature", "move-owned+grid-data", "copy-generator+operator+forms", "build-private-objects"};
extern "C" {
int c18_nops() { return 15; }
const char *c18_opname(int op) { return OPN[op]; }
void c18_setup(int variant) {
  if (variant == 0) { w0 = new World<double>(); w0->setup(); }
  else { w1 = new World<Dbl>(); w1->setup(); }
}
uint64_t c18_op(int variant, int op, int tid) { return variant == 0 ? w0->op(op, tid) : w1->op(op, tid); }
void c18_teardown(int variant) {
  if (variant == 0) { w0->teardown(); delete w0; w0 = nullptr; }
  else { w1->teardown(); delete w1; w1 = nullptr; }
}
}
