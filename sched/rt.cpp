// Own implementation of the ThreadSanitizer runtime interface (__tsan_*), the
// static-initialisation guards, operator new/delete and (in rt_mem.c) the memory
// intrinsics. The harness TU is compiled with -fsanitize=thread but linked against
// THIS file instead of libtsan, so every load, store, atomic operation, guard and
// allocation made by library and libstdc++ header code is observed here without
// any source hook. It provides
//   * a cooperative scheduler: real pthreads, exactly one holds the token; every
//     atomic operation, guard operation, thread start and thread exit is a
//     scheduling point whose choice comes from the explorer (prefix replay, then
//     default = keep running / lowest id);
//   * a happens-before race detector (vector clocks; edges only from spawn/join,
//     release->acquire on the same atomic word and guard release->acquire;
//     scheduler hand-offs are NOT edges);
//   * an allocation shadow (per-thread bump arenas, so heap addresses are
//     schedule-independent; use after free, double free, live blocks).
// Compiled WITHOUT -fsanitize=thread.
#include "rt.h"

#include <pthread.h>
#include <semaphore.h>
#include <stdio.h>
#include <stdlib.h>
#include <string.h>
#include <sys/mman.h>
#include <unistd.h>

#include <map>
#include <new>
#include <unordered_map>
#include <vector>

extern "C" char __executable_start, _end;  // linker symbols: bounds of the executable image
namespace {
bool g_active = false;      // tracking on (child process, between reset and finish)
bool g_concurrent = false;  // workers exist
__thread int t_tid = -1;
__thread int t_in_rt = 0;
struct RtScope {
  RtScope() { t_in_rt++; }
  ~RtScope() { t_in_rt--; }
};
inline bool track() { return g_active && t_tid >= 0 && !t_in_rt; }

struct VC {
  uint32_t c[VF_MAXT];
};
inline void vc_join(VC &a, const VC &b) {
  for (int i = 0; i < VF_MAXT; i++)
    if (b.c[i] > a.c[i]) a.c[i] = b.c[i];
}
enum { T_UNUSED = 0, T_READY, T_ENABLED, T_BLOCKED, T_FINISHED };
struct Thr {
  int state;
  sem_t sem;
  pthread_t pt;
  VC vc;
  uint64_t obs;   // hash of every value this thread obtained from a synchronisation operation
  long nsync;
  void (*fn)(void *);
  void *arg;
  const void *blocked_on;
};
Thr g_thr[VF_MAXT];

// ---- arenas ------------------------------------------------------------------
const size_t ARENA_SZ = (size_t)64 << 20;
char *g_arena = nullptr;
size_t g_arena_used[VF_MAXT];
struct Block {
  size_t size;
  int alloc_tid;
  bool live;
  int free_tid;
};
std::map<uintptr_t, Block> *g_blocks;
inline bool in_arena(const void *p) { return g_arena && (const char *)p >= g_arena && (const char *)p < g_arena + ARENA_SZ * VF_MAXT; }

// ---- shadow -----------------------------------------------------------------
struct Cell {
  int8_t w_tid = -1;
  uint32_t w_clk = 0;
  uint32_t r_clk[VF_MAXT] = {0, 0, 0, 0};
  uint32_t aw_clk[VF_MAXT] = {0, 0, 0, 0};
};
std::unordered_map<uintptr_t, Cell> *g_shadow;
std::unordered_map<uintptr_t, VC> *g_sync;          // release clocks of atomic words / guards
std::map<uintptr_t, int> *g_syncvars;               // address -> size of every atomic word touched in the concurrent phase
std::unordered_map<uintptr_t, int> *g_racy;         // granules already reported

VfResult g_res;
uint64_t *g_guards[256];
int g_nguards = 0;
void remember_guard(uint64_t *g) {
  for (int i = 0; i < g_nguards; i++)
    if (g_guards[i] == g) return;
  if (g_nguards < 256) g_guards[g_nguards++] = g;
}
const uint8_t *g_prefix;
int g_prefix_len;
int (*g_visited)(uint64_t, int, void *);
void *g_visited_ctx;
int g_preemptions;
void (*g_abort_cb)(VfResult *) = nullptr;

void describe(char *buf, size_t n, uintptr_t a) {
  if (in_arena((void *)a)) {
    int owner = (int)(((char *)a - g_arena) / ARENA_SZ);
    auto it = g_blocks->upper_bound(a);
    if (it != g_blocks->begin()) {
      --it;
      if (a < it->first + it->second.size) {
        // ordinal of the block within its arena
        int ord = 0;
        for (auto j = g_blocks->begin(); j != it; ++j)
          if (j->second.alloc_tid == owner) ord++;
        snprintf(buf, n, "heap block #%d allocated by T%d (%zu bytes) + %zu", ord, owner, it->second.size, (size_t)(a - it->first));
        return;
      }
    }
    snprintf(buf, n, "arena of T%d + %zu", owner, (size_t)((char *)a - g_arena - owner * ARENA_SZ));
  } else {
    // position-independent description (the executable is a PIE: absolute addresses differ between runs)
    if ((char *)a >= &__executable_start && (char *)a < &_end)
      snprintf(buf, n, "static storage at executable+0x%zx", (size_t)((char *)a - &__executable_start));
    else
      snprintf(buf, n, "an address outside the executable's static storage and the tracked heap (stack or foreign heap)");
  }
}

void note(const char *kind, uintptr_t a, int other_tid, const char *otherkind, const char *mykind) {
  if (g_res.what[0]) return;
  char loc[256];
  describe(loc, sizeof loc, a);
  snprintf(g_res.what, sizeof g_res.what, "%s: T%d %s vs T%d %s at %s, not ordered by happens-before", kind, t_tid, mykind, other_tid, otherkind, loc);
}

void check_freed(uintptr_t a, const char *what) {
  if (!in_arena((void *)a)) return;
  auto it = g_blocks->upper_bound(a);
  if (it == g_blocks->begin()) return;
  --it;
  if (a < it->first + it->second.size && !it->second.live) {
    g_res.nmemerr++;
    if (!g_res.what[0]) {
      char loc[256];
      describe(loc, sizeof loc, a);
      snprintf(g_res.what, sizeof g_res.what, "use after free: T%d %s %s, freed by T%d", t_tid, what, loc, it->second.free_tid);
    }
  }
}

void access(const void *p, size_t size, bool is_write, bool is_atomic) {
  if (!track()) return;
  RtScope s;
  int t = t_tid;
  uintptr_t a0 = (uintptr_t)p;
  if (is_atomic) g_res.atomics++;
  else if (is_write) g_res.writes++;
  else g_res.reads++;
  check_freed(a0, is_write ? "writes" : "reads");
  const VC &my = g_thr[t].vc;
  for (size_t i = 0; i < size; i++) {
    uintptr_t a = a0 + i;
    Cell &c = (*g_shadow)[a];
    int other = -1;
    const char *ok = "";
    if (c.w_tid >= 0 && c.w_tid != t && c.w_clk > my.c[c.w_tid]) { other = c.w_tid; ok = "plain write"; }
    if (other < 0 && (is_write || is_atomic) && !(is_atomic && !is_write))
      for (int u = 0; u < VF_MAXT; u++)
        if (u != t && c.r_clk[u] > my.c[u]) { other = u; ok = "plain read"; }
    if (other < 0 && !is_atomic)
      for (int u = 0; u < VF_MAXT; u++)
        if (u != t && c.aw_clk[u] > my.c[u]) { other = u; ok = "atomic write"; }
    if (other >= 0) {
      uintptr_t gran = a & ~(uintptr_t)7;
      if (!g_racy->count(gran)) {
        (*g_racy)[gran] = 1;
        g_res.nraces++;
        note("data race", a, other, ok, is_atomic ? (is_write ? "atomic write" : "atomic read") : (is_write ? "plain write" : "plain read"));
      }
    }
    if (is_atomic) {
      if (is_write) c.aw_clk[t] = my.c[t];
    } else if (is_write) {
      c.w_tid = (int8_t)t;
      c.w_clk = my.c[t];
    } else {
      c.r_clk[t] = my.c[t];
    }
  }
}

// ---- scheduler ----------------------------------------------------------------
uint64_t fnv(uint64_t h, const void *p, size_t n) {
  const unsigned char *b = (const unsigned char *)p;
  for (size_t i = 0; i < n; i++) { h ^= b[i]; h *= 1099511628211ull; }
  return h;
}
uint64_t state_hash() {
  uint64_t h = 1469598103934665603ull;
  for (int t = 1; t < VF_MAXT; t++) {
    h = fnv(h, &g_thr[t].state, sizeof(int));
    h = fnv(h, &g_thr[t].nsync, sizeof(long));
    h = fnv(h, &g_thr[t].obs, sizeof(uint64_t));
    h = fnv(h, &g_thr[t].vc, sizeof(VC));
  }
  for (auto &kv : *g_syncvars) {
    uintptr_t canon = in_arena((void *)kv.first) ? (uintptr_t)((char *)kv.first - g_arena) : kv.first;
    h = fnv(h, &canon, sizeof canon);
    h = fnv(h, (const void *)kv.first, kv.second);
    auto it = g_sync->find(kv.first);
    if (it != g_sync->end()) h = fnv(h, &it->second, sizeof(VC));
  }
  return h;
}

void die_with(int status) {
  g_res.status = status;
  if (g_abort_cb) g_abort_cb(&g_res);
  _exit(70 + status);
}

// pick the next thread to run; `self` is the calling thread (0 = main, not a candidate)
int choose(int self, bool self_enabled) {
  int cand[VF_MAXT], n = 0;
  if (self_enabled) cand[n++] = self;
  for (int t = 1; t < VF_MAXT; t++)
    if (t != self && (g_thr[t].state == T_READY || g_thr[t].state == T_ENABLED)) cand[n++] = t;
  if (n == 0) return -1;
  int idx = g_res.npoints;
  if (idx >= 4096) die_with(4);
  uint64_t st = state_hash();
  int choice = 0;
  if (idx < g_prefix_len) {
    choice = g_prefix[idx];
    if (choice >= n) {
      snprintf(g_res.what, sizeof g_res.what, "divergence while replaying the schedule prefix: choice %d of %d at point %d", choice, n, idx);
      die_with(3);
    }
  } else if (g_res.status == 1) {
    return cand[0];  // already pruned: run to completion with default choices, record nothing
  } else if (g_visited && g_visited(st, g_preemptions, g_visited_ctx)) {
    // reached a state whose futures are covered: mark, then let the execution finish with default choices
    VfPoint &p = g_res.points[g_res.npoints++];
    p.nenabled = (uint8_t)n; p.running_enabled = self_enabled; p.chosen = 255; p.state = st;
    g_res.status = 1;
    return cand[0];
  }
  VfPoint &p = g_res.points[g_res.npoints++];
  p.nenabled = (uint8_t)n;
  p.running_enabled = self_enabled ? 1 : 0;
  p.chosen = (uint8_t)choice;
  p.state = st;
  if (self_enabled && choice != 0) g_preemptions++;
  return cand[choice];
}

void run_other(int self, int next) {  // give the token away and wait for it to come back
  sem_post(&g_thr[next].sem);
  sem_wait(&g_thr[self].sem);
}

// scheduling point of an enabled worker
void sched_point() {
  if (!g_concurrent || t_tid <= 0) return;
  int self = t_tid;
  int next = choose(self, true);
  if (next != self) run_other(self, next);
}

// the calling worker cannot continue (finished or blocked): pass the token on
void pass_on(int self, bool will_return) {
  int next = choose(self, false);
  if (next < 0) {
    bool all_done = true;
    for (int t = 1; t < VF_MAXT; t++)
      if (g_thr[t].state != T_UNUSED && g_thr[t].state != T_FINISHED) all_done = false;
    if (!all_done) {
      snprintf(g_res.what, sizeof g_res.what, "deadlock: no enabled thread, T%d blocked on a static-initialisation guard", self);
      die_with(2);
    }
    sem_post(&g_thr[0].sem);
    return;
  }
  if (will_return) run_other(self, next);
  else sem_post(&g_thr[next].sem);
}

void sync_op(const void *a, int size) {  // bookkeeping common to all synchronisation operations of workers
  if (t_tid <= 0 || !g_concurrent) return;
  g_thr[t_tid].nsync++;
  (*g_syncvars)[(uintptr_t)a] = size;
  uintptr_t canon = in_arena(a) ? (uintptr_t)((const char *)a - g_arena) : (uintptr_t)a;
  g_res.sync_order = fnv(g_res.sync_order, &t_tid, sizeof(int));
  g_res.sync_order = fnv(g_res.sync_order, &canon, sizeof canon);
}
inline bool mo_acq(int mo) { return mo == __ATOMIC_CONSUME || mo == __ATOMIC_ACQUIRE || mo == __ATOMIC_ACQ_REL || mo == __ATOMIC_SEQ_CST; }
inline bool mo_rel(int mo) { return mo == __ATOMIC_RELEASE || mo == __ATOMIC_ACQ_REL || mo == __ATOMIC_SEQ_CST; }
void hb_acquire(const void *a) {
  auto it = g_sync->find((uintptr_t)a);
  if (it != g_sync->end()) vc_join(g_thr[t_tid].vc, it->second);
}
void hb_release(const void *a) {
  VC &l = (*g_sync)[(uintptr_t)a];
  vc_join(l, g_thr[t_tid].vc);
  g_thr[t_tid].vc.c[t_tid]++;
}
void observe(uint64_t v) {
  if (t_tid >= 0) g_thr[t_tid].obs = fnv(g_thr[t_tid].obs, &v, sizeof v);
}

void *worker_main(void *arg) {
  int tid = (int)(intptr_t)arg;
  t_tid = tid;
  sem_wait(&g_thr[tid].sem);  // wait for the token
  g_thr[tid].state = T_ENABLED;
  g_thr[tid].fn(g_thr[tid].arg);
  {
    RtScope s;
    g_thr[tid].state = T_FINISHED;
    pass_on(tid, false);
  }
  return nullptr;
}
}  // namespace

// ================= interface for the explorer =========================================
extern "C" {
void vf_rt_set_abort(void (*cb)(VfResult *)) { g_abort_cb = cb; }

void vf_rt_reset(const uint8_t *prefix, int prefix_len, int (*visited)(uint64_t, int, void *), void *ctx) {
  t_in_rt++;
  if (!g_arena) {
    g_arena = (char *)mmap(nullptr, ARENA_SZ * VF_MAXT, PROT_READ | PROT_WRITE, MAP_PRIVATE | MAP_ANONYMOUS | MAP_NORESERVE, -1, 0);
    if (g_arena == MAP_FAILED) { perror("mmap"); _exit(99); }
  }
  delete g_blocks; delete g_shadow; delete g_sync; delete g_syncvars; delete g_racy;
  g_blocks = new std::map<uintptr_t, Block>();
  g_shadow = new std::unordered_map<uintptr_t, Cell>();
  g_sync = new std::unordered_map<uintptr_t, VC>();
  g_syncvars = new std::map<uintptr_t, int>();
  g_racy = new std::unordered_map<uintptr_t, int>();

  memset(&g_res, 0, sizeof g_res);
  memset(g_thr, 0, sizeof g_thr);
  memset(g_arena_used, 0, sizeof g_arena_used);
  g_res.sync_order = 1469598103934665603ull;
  g_prefix = prefix;
  g_prefix_len = prefix_len;
  g_visited = visited;
  g_visited_ctx = ctx;
  g_preemptions = 0;
  for (int t = 0; t < VF_MAXT; t++) {
    sem_init(&g_thr[t].sem, 0, 0);
    g_thr[t].obs = 1469598103934665603ull;
  }
  g_thr[0].state = T_ENABLED;
  g_thr[0].vc.c[0] = 1;
  t_tid = 0;
  g_active = true;
  g_concurrent = false;
  t_in_rt--;
}

void vf_rt_spawn(void (*fn)(void *), void *arg, int tid) {
  RtScope s;
  Thr &w = g_thr[tid];
  w.fn = fn;
  w.arg = arg;
  w.state = T_READY;
  w.vc = g_thr[0].vc;  // spawn edge
  w.vc.c[tid] = 1;
  g_thr[0].vc.c[0]++;
  pthread_attr_t at;
  pthread_attr_init(&at);
  pthread_attr_setstacksize(&at, 1 << 20);
  if (pthread_create(&w.pt, &at, worker_main, (void *)(intptr_t)tid) != 0) { perror("pthread_create"); _exit(98); }
}

void vf_rt_run(void) {
  RtScope s;
  g_concurrent = true;
  int next = choose(0, false);
  if (next > 0) {
    sem_post(&g_thr[next].sem);
    sem_wait(&g_thr[0].sem);
  }
  g_concurrent = false;
  for (int t = 1; t < VF_MAXT; t++)
    if (g_thr[t].state != T_UNUSED) {
      pthread_join(g_thr[t].pt, nullptr);
      vc_join(g_thr[0].vc, g_thr[t].vc);  // join edge
    }
  g_thr[0].vc.c[0]++;
}

void vf_rt_set_digest(int tid, uint64_t d) { g_res.digest[tid] = d; }
void vf_rt_set_opdigest(int tid, int k, uint64_t d) { if (k < 4) g_res.opdigest[tid][k] = d; }
void vf_rt_observe(uint64_t v) {
  if (!track()) return;
  RtScope s;
  observe(v);
}

VfResult *vf_rt_finish(void) {
  t_in_rt++;
  g_active = false;
  long live = 0;
  for (auto &kv : *g_blocks)
    if (kv.second.live) live++;
  g_res.live_blocks = live;
  t_in_rt--;
  return &g_res;
}

// ================= ThreadSanitizer interface ============================================
void __tsan_init(void) {}
void __tsan_func_entry(void *) {}
void __tsan_func_exit(void) {}
void __tsan_read1(void *a) { access(a, 1, false, false); }
void __tsan_read2(void *a) { access(a, 2, false, false); }
void __tsan_read4(void *a) { access(a, 4, false, false); }
void __tsan_read8(void *a) { access(a, 8, false, false); }
void __tsan_read16(void *a) { access(a, 16, false, false); }
void __tsan_write1(void *a) { access(a, 1, true, false); }
void __tsan_write2(void *a) { access(a, 2, true, false); }
void __tsan_write4(void *a) { access(a, 4, true, false); }
void __tsan_write8(void *a) { access(a, 8, true, false); }
void __tsan_write16(void *a) { access(a, 16, true, false); }
void __tsan_unaligned_read2(void *a) { access(a, 2, false, false); }
void __tsan_unaligned_read4(void *a) { access(a, 4, false, false); }
void __tsan_unaligned_read8(void *a) { access(a, 8, false, false); }
void __tsan_unaligned_read16(void *a) { access(a, 16, false, false); }
void __tsan_unaligned_write2(void *a) { access(a, 2, true, false); }
void __tsan_unaligned_write4(void *a) { access(a, 4, true, false); }
void __tsan_unaligned_write8(void *a) { access(a, 8, true, false); }
void __tsan_unaligned_write16(void *a) { access(a, 16, true, false); }
void __tsan_read_range(void *a, unsigned long n) { access(a, n, false, false); }
void __tsan_write_range(void *a, unsigned long n) { access(a, n, true, false); }
void __tsan_vptr_read(void **a) { access(a, 8, false, false); }
void __tsan_vptr_update(void **a, void *) { access(a, 8, true, false); }
void __tsan_read_write1(void *a) { access(a, 1, true, false); }
void __tsan_read_write2(void *a) { access(a, 2, true, false); }
void __tsan_read_write4(void *a) { access(a, 4, true, false); }
void __tsan_read_write8(void *a) { access(a, 8, true, false); }
void vf_rt_range(const void *a, size_t n, int is_write) { access(a, n, is_write != 0, false); }

#define VF_ATOMIC(N, T)                                                                                         \
  T __tsan_atomic##N##_load(const volatile T *a, int mo) {                                                      \
    if (!track()) return __atomic_load_n(a, __ATOMIC_SEQ_CST);                                                  \
    { RtScope s; sched_point(); }                                                                               \
    access((const void *)a, sizeof(T), false, true);                                                            \
    RtScope s;                                                                                                  \
    sync_op((const void *)a, sizeof(T));                                                                        \
    T v = *a;                                                                                                   \
    if (mo_acq(mo)) hb_acquire((const void *)a);                                                                \
    observe((uint64_t)v);                                                                                       \
    return v;                                                                                                   \
  }                                                                                                             \
  void __tsan_atomic##N##_store(volatile T *a, T v, int mo) {                                                   \
    if (!track()) { __atomic_store_n(a, v, __ATOMIC_SEQ_CST); return; }                                         \
    { RtScope s; sched_point(); }                                                                               \
    access((const void *)a, sizeof(T), true, true);                                                             \
    RtScope s;                                                                                                  \
    sync_op((const void *)a, sizeof(T));                                                                        \
    *a = v;                                                                                                     \
    if (mo_rel(mo)) hb_release((const void *)a);                                                                \
  }                                                                                                             \
  static T vf_rmw##N(volatile T *a, T v, int mo, int kind) {                                                    \
    { RtScope s; sched_point(); }                                                                               \
    access((const void *)a, sizeof(T), true, true);                                                             \
    RtScope s;                                                                                                  \
    sync_op((const void *)a, sizeof(T));                                                                        \
    T old = *a;                                                                                                 \
    switch (kind) {                                                                                             \
      case 0: *a = (T)(old + v); break;                                                                         \
      case 1: *a = (T)(old - v); break;                                                                         \
      case 2: *a = (T)(old & v); break;                                                                         \
      case 3: *a = (T)(old | v); break;                                                                         \
      case 4: *a = (T)(old ^ v); break;                                                                         \
      case 5: *a = v; break;                                                                                    \
      case 6: *a = (T) ~(old & v); break;                                                                       \
    }                                                                                                           \
    if (mo_acq(mo)) hb_acquire((const void *)a);                                                                \
    if (mo_rel(mo)) hb_release((const void *)a);                                                                \
    observe((uint64_t)old);                                                                                     \
    return old;                                                                                                 \
  }                                                                                                             \
  T __tsan_atomic##N##_fetch_add(volatile T *a, T v, int mo) { return track() ? vf_rmw##N(a, v, mo, 0) : __atomic_fetch_add(a, v, __ATOMIC_SEQ_CST); } \
  T __tsan_atomic##N##_fetch_sub(volatile T *a, T v, int mo) { return track() ? vf_rmw##N(a, v, mo, 1) : __atomic_fetch_sub(a, v, __ATOMIC_SEQ_CST); } \
  T __tsan_atomic##N##_fetch_and(volatile T *a, T v, int mo) { return track() ? vf_rmw##N(a, v, mo, 2) : __atomic_fetch_and(a, v, __ATOMIC_SEQ_CST); } \
  T __tsan_atomic##N##_fetch_or(volatile T *a, T v, int mo) { return track() ? vf_rmw##N(a, v, mo, 3) : __atomic_fetch_or(a, v, __ATOMIC_SEQ_CST); }   \
  T __tsan_atomic##N##_fetch_xor(volatile T *a, T v, int mo) { return track() ? vf_rmw##N(a, v, mo, 4) : __atomic_fetch_xor(a, v, __ATOMIC_SEQ_CST); } \
  T __tsan_atomic##N##_exchange(volatile T *a, T v, int mo) { return track() ? vf_rmw##N(a, v, mo, 5) : __atomic_exchange_n(a, v, __ATOMIC_SEQ_CST); } \
  T __tsan_atomic##N##_fetch_nand(volatile T *a, T v, int mo) { return track() ? vf_rmw##N(a, v, mo, 6) : __atomic_fetch_nand(a, v, __ATOMIC_SEQ_CST); } \
  int __tsan_atomic##N##_compare_exchange_strong(volatile T *a, T *c, T v, int mo, int fmo) {                   \
    if (!track()) return __atomic_compare_exchange_n(a, c, v, 0, __ATOMIC_SEQ_CST, __ATOMIC_SEQ_CST);            \
    { RtScope s; sched_point(); }                                                                               \
    access((const void *)a, sizeof(T), true, true);                                                             \
    RtScope s;                                                                                                  \
    sync_op((const void *)a, sizeof(T));                                                                        \
    T old = *a;                                                                                                 \
    observe((uint64_t)old);                                                                                     \
    if (old == *c) {                                                                                            \
      *a = v;                                                                                                   \
      if (mo_acq(mo)) hb_acquire((const void *)a);                                                              \
      if (mo_rel(mo)) hb_release((const void *)a);                                                              \
      return 1;                                                                                                 \
    }                                                                                                           \
    *c = old;                                                                                                   \
    if (mo_acq(fmo)) hb_acquire((const void *)a);                                                               \
    return 0;                                                                                                   \
  }                                                                                                             \
  int __tsan_atomic##N##_compare_exchange_weak(volatile T *a, T *c, T v, int mo, int fmo) {                     \
    return __tsan_atomic##N##_compare_exchange_strong(a, c, v, mo, fmo);                                        \
  }                                                                                                             \
  T __tsan_atomic##N##_compare_exchange_val(volatile T *a, T c, T v, int mo, int fmo) {                         \
    __tsan_atomic##N##_compare_exchange_strong(a, &c, v, mo, fmo);                                              \
    return c;                                                                                                   \
  }
VF_ATOMIC(8, unsigned char)
VF_ATOMIC(16, unsigned short)
VF_ATOMIC(32, unsigned int)
VF_ATOMIC(64, unsigned long)
void __tsan_atomic_thread_fence(int) {
  if (!track()) return;
  RtScope s;
  sched_point();
}
void __tsan_atomic_signal_fence(int) {}

// ================= static initialisation guards ============================================
// Itanium ABI: byte 0 != 0 means initialised; we use byte 1 as "in progress" and byte 2 as owner id.
int __cxa_guard_acquire(uint64_t *g) {
  unsigned char *b = (unsigned char *)g;
  if (!track() || !g_concurrent || t_tid <= 0) {
    if (b[0]) return 0;
    if (b[1]) abort();  // recursive initialisation
    b[1] = 1;
    return 1;
  }
  RtScope s;
  g_res.guards++;
  sched_point();
  sync_op(g, 8);
  while (true) {
    if (b[0]) {
      hb_acquire(g);
      observe(1);
      return 0;
    }
    if (!b[1]) {
      b[1] = 1;
      b[2] = (unsigned char)t_tid;
      observe(2);
      return 1;
    }
    // another thread is initialising: block (disabled, not spinning)
    g_thr[t_tid].state = T_BLOCKED;
    g_thr[t_tid].blocked_on = g;
    pass_on(t_tid, true);
  }
}
void __cxa_guard_release(uint64_t *g) {
  unsigned char *b = (unsigned char *)g;
  b[0] = 1;
  b[1] = 0;
  if (!track() || !g_concurrent || t_tid <= 0) return;
  RtScope s;
  g_res.guards++;
  sync_op(g, 8);
  hb_release(g);
  for (int t = 1; t < VF_MAXT; t++)
    if (g_thr[t].state == T_BLOCKED && g_thr[t].blocked_on == g) g_thr[t].state = T_ENABLED;
  sched_point();
}
void __cxa_guard_abort(uint64_t *g) {
  unsigned char *b = (unsigned char *)g;
  b[1] = 0;
  if (!track() || !g_concurrent || t_tid <= 0) return;
  RtScope s;
  for (int t = 1; t < VF_MAXT; t++)
    if (g_thr[t].state == T_BLOCKED && g_thr[t].blocked_on == g) g_thr[t].state = T_ENABLED;
}
}  // extern "C"

// ================= allocation =================================================================
static void *vf_alloc(size_t n, size_t align) {
  if (!g_active || t_tid < 0 || t_in_rt) {
    void *p = align > 16 ? aligned_alloc(align, (n + align - 1) / align * align) : malloc(n ? n : 1);
    if (!p) throw std::bad_alloc();
    return p;
  }
  RtScope s;
  int t = t_tid;
  if (align < 16) align = 16;
  size_t off = (g_arena_used[t] + align - 1) / align * align;
  if (off + n + 16 > ARENA_SZ) { fprintf(stderr, "arena exhausted\n"); _exit(97); }
  g_arena_used[t] = off + (n ? n : 1) + 16;  // 16 bytes red zone, never reused
  char *p = g_arena + (size_t)t * ARENA_SZ + off;
  (*g_blocks)[(uintptr_t)p] = Block{n ? n : 1, t, true, -1};
  g_res.allocs++;
  return p;
}
static void vf_free(void *p) {
  if (!p) return;
  if (!in_arena(p)) { free(p); return; }
  if (!g_active || t_tid < 0) return;  // after finish: arena memory is simply dropped
  if (t_in_rt) return;
  size_t sz = 0;
  {
    RtScope s;
    auto it = g_blocks->find((uintptr_t)p);
    if (it == g_blocks->end() || !it->second.live) {
      g_res.nmemerr++;
      if (!g_res.what[0]) {
        char loc[256];
        describe(loc, sizeof loc, (uintptr_t)p);
        snprintf(g_res.what, sizeof g_res.what, "%s: T%d frees %s", it == g_blocks->end() ? "free of a pointer that is not a block" : "double free", t_tid, loc);
      }
      return;
    }
    sz = it->second.size;
  }
  access(p, sz, true, false);  // freeing conflicts with every access not ordered before it
  RtScope s;
  auto it = g_blocks->find((uintptr_t)p);
  it->second.live = false;
  it->second.free_tid = t_tid;
}
void *operator new(size_t n) { return vf_alloc(n, 16); }
void *operator new[](size_t n) { return vf_alloc(n, 16); }
void *operator new(size_t n, std::align_val_t a) { return vf_alloc(n, (size_t)a); }
void *operator new[](size_t n, std::align_val_t a) { return vf_alloc(n, (size_t)a); }
void *operator new(size_t n, const std::nothrow_t &) noexcept { try { return vf_alloc(n, 16); } catch (...) { return nullptr; } }
void *operator new[](size_t n, const std::nothrow_t &) noexcept { try { return vf_alloc(n, 16); } catch (...) { return nullptr; } }
void operator delete(void *p) noexcept { vf_free(p); }
void operator delete[](void *p) noexcept { vf_free(p); }
void operator delete(void *p, size_t) noexcept { vf_free(p); }
void operator delete[](void *p, size_t) noexcept { vf_free(p); }
void operator delete(void *p, std::align_val_t) noexcept { vf_free(p); }
void operator delete[](void *p, std::align_val_t) noexcept { vf_free(p); }
void operator delete(void *p, size_t, std::align_val_t) noexcept { vf_free(p); }
void operator delete[](void *p, size_t, std::align_val_t) noexcept { vf_free(p); }
