// E6 fault-position explorer: every operation of a menu of in-place updates and assignments is executed once fault-free
// (counting the scalar arithmetic operations it performs, N) and then N more times on fresh objects, with the k-th scalar
// arithmetic operation (k = 1..N) THROWING, as the arithmetic of checked / multiprecision / rational scalar types can
// (overflow, division by zero, allocation). One deviation from the default environment answer per execution, at every
// possible position. After the failed call:
//   * the target of the in-place operation / assignment is unchanged            -> fault:C14:target-changed
//   * every operand is unchanged                                                 -> fault:C14:operand-changed
//   * every object satisfies its class invariant                                 -> fault:C10:invariant
//   * the same operation, repeated fault-free on the survivors, gives the fault-free result (objects still usable)
//                                                                                -> fault:C10:unusable-after-failed-call
// Only ARITHMETIC throws (+ - * / and compound forms, unary minus): copies, construction from int and comparisons never
// throw here, because a throwing element copy defeats std::vector's own copy assignment, which the library cannot help.
#include <bspline/Core.h>
#include <gmpxx.h>

#include "harness.h"
using namespace vf;
using bspline::Spline;
using bspline::linearCombination;
using bspline::support::Grid;
using bspline::support::Support;
using namespace bspline::operators;

struct ScalarFault {};
// ---- second kind of fault: the k-th allocation through operator new fails (std::bad_alloc) ------------------------------
#if !defined(VF_SAN) && !defined(VF_VALGRIND)
#define VF_ALLOC_FAULTS 1
static long g_allocs = 0, g_alloc_fail_at = -1;
void *operator new(size_t n) {
  ++g_allocs;
  if (g_alloc_fail_at > 0 && g_allocs == g_alloc_fail_at) throw std::bad_alloc();
  void *p = malloc(n ? n : 1);
  if (!p) throw std::bad_alloc();
  return p;
}
void operator delete(void *p) noexcept { free(p); }
void operator delete(void *p, size_t) noexcept { free(p); }
#else
static long g_allocs = 0, g_alloc_fail_at = -1;
#endif
static long g_ticks = 0, g_fault_at = -1;
static inline void tick() {
  ++g_ticks;
  if (g_fault_at > 0 && g_ticks == g_fault_at) throw ScalarFault{};
}
struct FQ {
  mpq_class v;
  FQ() : v(0) {}
  template <class A, std::enable_if_t<std::is_arithmetic_v<A>, int> = 0>
  FQ(A a) : v((long)a) {}
  explicit FQ(const mpq_class &q) : v(q) {}
  FQ &operator+=(const FQ &o) { tick(); v += o.v; return *this; }
  FQ &operator-=(const FQ &o) { tick(); v -= o.v; return *this; }
  FQ &operator*=(const FQ &o) { tick(); v *= o.v; return *this; }
  FQ &operator/=(const FQ &o) { tick(); v /= o.v; return *this; }
  friend FQ operator+(const FQ &a, const FQ &b) { tick(); return FQ(mpq_class(a.v + b.v)); }
  friend FQ operator-(const FQ &a, const FQ &b) { tick(); return FQ(mpq_class(a.v - b.v)); }
  friend FQ operator*(const FQ &a, const FQ &b) { tick(); return FQ(mpq_class(a.v * b.v)); }
  friend FQ operator/(const FQ &a, const FQ &b) { tick(); return FQ(mpq_class(a.v / b.v)); }
  friend FQ operator-(const FQ &a) { tick(); return FQ(mpq_class(-a.v)); }
  friend bool operator<(const FQ &a, const FQ &b) { return a.v < b.v; }
  friend bool operator<=(const FQ &a, const FQ &b) { return a.v <= b.v; }
  friend bool operator>(const FQ &a, const FQ &b) { return a.v > b.v; }
  friend bool operator>=(const FQ &a, const FQ &b) { return a.v >= b.v; }
  friend bool operator==(const FQ &a, const FQ &b) { return a.v == b.v; }
  friend bool operator!=(const FQ &a, const FQ &b) { return a.v != b.v; }
};

using S2 = Spline<FQ, 2>;
using S1 = Spline<FQ, 1>;
using S0 = Spline<FQ, 0>;

struct Win { size_t s, e; size_t nint() const { return e > s ? e - s - 1 : 0; } };
static std::string wstr(Win w) { return "w(" + std::to_string(w.s) + "," + std::to_string(w.e) + ")"; }

template <size_t o>
static Spline<FQ, o> mk(const Grid<FQ> &g, Win w, long seed) {
  std::vector<std::array<FQ, o + 1>> c(w.nint());
  long p = seed;
  for (auto &a : c)
    for (auto &x : a) { p = (p * 31 + 7) % 101; x = FQ(mpq_class(p - 50, 3)); if (x.v == 0) x = FQ(mpq_class(1, 7)); }
  return Spline<FQ, o>(Support<FQ>(g, w.s, w.e), std::move(c));
}
template <size_t o>
static std::string snap(const Spline<FQ, o> &s) {
  std::string r = "[" + std::to_string(s.getSupport().getStartIndex()) + "," + std::to_string(s.getSupport().getEndIndex()) + ")";
  for (auto &a : s.getCoefficients()) { r += "("; for (auto &x : a) r += x.v.get_str() + ","; r += ")"; }
  for (size_t i = 0; i < s.getSupport().getGrid().size(); i++) r += "g" + s.getSupport().getGrid()[i].v.get_str();
  return r;
}
template <size_t o>
static bool valid(const Spline<FQ, o> &s) {
  size_t st = s.getSupport().getStartIndex(), en = s.getSupport().getEndIndex();
  if (st > en || en > s.getSupport().getGrid().size()) return false;
  size_t ni = en > st ? en - st - 1 : 0;
  return s.getCoefficients().size() == ni;
}

struct World {
  Grid<FQ> g, gc;
  S2 t, a2;
  S1 a1;
  S0 a0;
  World(Win wt, Win wa, const std::vector<FQ> &pts) : g(pts), gc(pts), t(mk<2>(g, wt, 3)), a2(mk<2>(gc, wa, 11)), a1(mk<1>(g, wa, 5)), a0(mk<0>(g, wa, 17)) {}
};

static const char *OPN[] = {"t=a2(copy)", "t=move(copy of a2)", "t+=a2", "t-=a2", "t+=a1", "t-=a0", "t*=c", "t/=c", "t=a1", "t=a0", "t=t+a2", "t=t*a0", "t=(c*I)*t", "t=lincomb({c,d},{t,a2})", "t=-t", "t=(X<1>*Dx<1>)*t", "t=a2*c", "t=t-a1"};
static constexpr int NOPS = 18;
static void run_op(int op, World &w) {
  const FQ c(mpq_class(5, 3)), d(mpq_class(-2, 7));
  if (op == 0) { w.t = w.a2; return; }
  if (op == 1) { S2 tmp(w.a2); w.t = std::move(tmp); return; }
  op -= 2;
  switch (op) {
    case 0: w.t += w.a2; break;
    case 1: w.t -= w.a2; break;
    case 2: w.t += w.a1; break;
    case 3: w.t -= w.a0; break;
    case 4: w.t *= c; break;
    case 5: w.t /= c; break;
    case 6: w.t = w.a1; break;
    case 7: w.t = w.a0; break;
    case 8: w.t = w.t + w.a2; break;
    case 9: w.t = w.t * w.a0; break;
    case 10: w.t = (c * IdentityOperator{}) * w.t; break;
    case 11: { std::vector<FQ> cs{c, d}; std::vector<S2> v{w.t, w.a2}; w.t = linearCombination(cs, v); break; }
    case 12: w.t = -w.t; break;
    case 13: w.t = (X<1>{} * Dx<1>{}) * w.t; break;
    case 14: w.t = w.a2 * c; break;
    case 15: w.t = w.t - w.a1; break;
  }
}

int main(int argc, char **argv) {
  Harness H("FAULT", argc, argv);
  std::vector<FQ> pts = {FQ(mpq_class(-3)), FQ(mpq_class(-2)), FQ(mpq_class(0)), FQ(mpq_class(1, 2)), FQ(mpq_class(5))};
  const size_t n = pts.size();
  std::vector<Win> W{{0, 0}};
  for (size_t s = 0; s < n; s++) for (size_t e = s + 1; e <= n; e++) W.push_back({s, e});
  for (int op = 0; op < NOPS; op++)
    for (Win wt : W)
      for (Win wa : W) {
        // fault-free run: number of scalar operations / allocations and the result
        long N[2] = {0, 0};
        std::string good;
        {
          // (always executed: needed to know how many fault positions this case has; not counted as a case)
          World w(wt, wa, pts);
          g_fault_at = -1;
          g_alloc_fail_at = -1;
          g_ticks = 0;
          long a0 = g_allocs;
          try { run_op(op, w); } catch (...) { continue; }  // not an admissible call for these shapes
          N[0] = g_ticks;
          N[1] = g_allocs - a0;
          good = snap(w.t);
        }
#ifndef VF_ALLOC_FAULTS
        N[1] = 0;
#endif
        for (int kind = 0; kind < 2; kind++)
        for (long k = 1; k <= N[kind]; k++) {
          if (!H.take()) continue;
          H.begin(std::string(OPN[op]) + ";t=" + wstr(wt) + ";a=" + wstr(wa) + (kind ? ";alloc-fault-at=" : ";fault-at=") + std::to_string(k) + "/" + std::to_string(N[kind]));
          long nv0 = H.nviol;
          World w(wt, wa, pts);
          std::string t0 = snap(w.t), a20 = snap(w.a2), a10 = snap(w.a1), a00 = snap(w.a0);
          bool threw = false;
          g_ticks = 0;
          if (kind == 0) g_fault_at = k; else g_alloc_fail_at = g_allocs + k;
          try { run_op(op, w); } catch (const ScalarFault &) { threw = true; } catch (const std::bad_alloc &) { threw = true; if (kind == 0) { g_fault_at = -1; H.fail("fault:C14:foreign-exception", "the scalar's exception was replaced by std::bad_alloc"); } }
          catch (const std::exception &e) { g_fault_at = -1; g_alloc_fail_at = -1; H.fail("fault:C14:foreign-exception", std::string("the injected exception was replaced by ") + e.what()); threw = true; }
          g_fault_at = -1;
          g_alloc_fail_at = -1;
          const std::string what = kind ? "allocation " + std::to_string(k) + " of " + std::to_string(N[kind]) + " failed" : "scalar operation " + std::to_string(k) + " of " + std::to_string(N[kind]) + " failed";
          if (!valid(w.t) || !valid(w.a2) || !valid(w.a1) || !valid(w.a0)) H.fail("fault:C10:invariant", "after the failed call (" + what + ") an object holds a coefficient count different from its interval count (or a window outside its grid): target " + snap(w.t).substr(0, 160));
          else {
            if (threw) {
              if (snap(w.t) != t0) H.fail("fault:C14:target-changed", "the call threw (" + what + ") and left its target changed: " + snap(w.t).substr(0, 200) + " instead of " + t0.substr(0, 200));
            } else if (snap(w.t) != good) H.fail("fault:C14:wrong-after-swallowed-fault", "the injected exception did not propagate and the result differs from the fault-free one");
            if (snap(w.a2) != a20 || snap(w.a1) != a10 || snap(w.a0) != a00) H.fail("fault:C14:operand-changed", "an operand changed during the failed call");
            if (threw && snap(w.t) == t0) {
              // the survivors are still usable: the same call now succeeds with the fault-free result
              g_ticks = 0;
              try { run_op(op, w); if (snap(w.t) != good) H.fail("fault:C10:unusable-after-failed-call", "repeating the call after the failure gives a different result than the fault-free run"); }
              catch (...) { H.fail("fault:C10:unusable-after-failed-call", "repeating the call after the failure throws"); }
            }
          }
          if (H.nviol > nv0) H.count(std::string("cases_with_violation:") + OPN[op] + (kind ? ":alloc" : ":arith"));
          H.cls(std::string("op:") + OPN[op]);
          H.cls(threw ? (kind ? "threw:alloc" : "threw") : "swallowed");
          H.count(kind ? "alloc_fault_positions" : "fault_positions");
          H.nontriv();
          H.end();
        }
      }
  return H.finish();
}
