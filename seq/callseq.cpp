// E5 call-sequence explorer: every sequence of calls up to a depth bound over a
// small menu, executed on LONG-LIVED objects (forms, operator expressions,
// generators, splines) inside one pristine process per sequence. The other
// engines build a fresh form / operator / generator for every case, so hidden
// state (a mutable cache inside a const object, a function-local or global
// table, a scratch buffer, a stale search hint) is never given the chance to
// influence a LATER call; here it is, for every ordering of the menu.
//
// Oracles, after every call of every sequence:
//   * the result equals the exact reference value for the CURRENT (reference-
//     tracked) state of the arguments            -> key seq:<property>:wrong-result
//   * no call in the menu may throw                -> key seq:<property>:threw
//   * every persistent spline still denotes its reference state
//                                                  -> key seq:C14:operand-changed
//   * every result returned by an earlier call of the sequence still has the
//     value it had when it was returned            -> key seq:C14:earlier-result-changed
//   * (mutation-free menus) the result is bit-identical to the result of the
//     same call executed alone in a pristine process
//                                                  -> key seq:C14:disturbed-by-earlier-call
// Each sequence runs in a forked child (statics, lazily filled tables and
// allocator state are pristine), so a case replays deterministically.
#include <sys/wait.h>

#include <functional>

#include "lib.h"
#ifdef VF_QUAD
#include <bspline/integration/numerical.h>
#endif
#ifdef VF_INTERP
#define BSPLINE_INTERPOLATION_USE_EIGEN
#include <bspline/interpolation/interpolation.h>
#endif
using namespace vf;
using namespace bspline::operators;
using bspline::BSplineGenerator;
using bspline::linearCombination;
using bspline::integration::BilinearForm;
using bspline::integration::LinearForm;
using S = vf::DefaultScalar;


// ---- owning the allocator: grids that come and go ------------------------------------------------------------
// Blocks allocated with operator new while an ArenaScope is open (the point buffer of a temporary grid and the
// shared_ptr block holding its vector) come from a private arena with strict per-size LIFO reuse, so the next temporary
// grid of the same size is GUARANTEED to live at the address of the one destroyed before it. With the process allocator
// that reuse is likely but depends on unrelated allocations of similar size. (Not under sanitizers: they must keep
// tracking every block, and their quarantine forbids reuse anyway.)
#if !defined(VF_SAN) && !defined(VF_VALGRIND)
#define VF_ARENA 1
static int g_arena_on = 0;
struct BlkHdr { size_t size; size_t arena; };
static_assert(sizeof(BlkHdr) == 16);
alignas(16) static unsigned char g_arena[1 << 20];
static size_t g_arena_used = 0;
static struct { size_t size; void *head; } g_free[64];
static void *arena_alloc(size_t n) {
  n = (n + 15) & ~size_t(15);
  for (auto &f : g_free)
    if (f.size == n && f.head) { void *p = f.head; f.head = *(void **)p; return p; }
  if (g_arena_used + n + sizeof(BlkHdr) > sizeof g_arena) return nullptr;
  BlkHdr *h = (BlkHdr *)(g_arena + g_arena_used);
  g_arena_used += n + sizeof(BlkHdr);
  h->size = n; h->arena = 1;
  return h + 1;
}
static void arena_free(void *p, size_t n) {
  for (auto &f : g_free)
    if (f.size == n || f.size == 0) { f.size = n; *(void **)p = f.head; f.head = p; return; }
}
void *operator new(size_t n) {
  if (g_arena_on) { void *p = arena_alloc(n); if (p) return p; }
  BlkHdr *h = (BlkHdr *)malloc(n + sizeof(BlkHdr));
  if (!h) throw std::bad_alloc();
  h->size = n; h->arena = 0;
  return h + 1;
}
void operator delete(void *p) noexcept {
  if (!p) return;
  BlkHdr *h = (BlkHdr *)p - 1;
  if (h->arena) arena_free(p, h->size); else free(h);
}
void operator delete(void *p, size_t) noexcept { operator delete(p); }
struct ArenaScope { ArenaScope() { g_arena_on++; } ~ArenaScope() { g_arena_on--; } };
#else
struct ArenaScope {};
#endif
template <class T>
static Grid<T> mktempgrid(const std::vector<mpq_class> &pts) {
  std::vector<T> v = to_s<T>(pts);   // scalar values first (their own allocations stay outside the arena)
  ArenaScope scope;
  std::vector<T> w;
  w.reserve(v.size());                // the point buffer: from the arena
  for (auto &e : v) w.push_back(e);
  return Grid<T>(std::move(w));       // + the shared_ptr block
}

struct Ctx {
  std::vector<std::pair<std::string, std::string>> viol;
  std::vector<std::string> results;  // canonical result string per executed call
  std::vector<std::function<std::string()>> recheck;
  void fail(const std::string &k, const std::string &m) { viol.push_back({k, m}); }
  template <size_t o>
  void retain(const Spline<S, o> &r, const RefPP &expect, const std::string &what) {
    auto sp = std::make_shared<Spline<S, o>>(r);
    recheck.push_back([sp, expect, what]() -> std::string {
      bool ok = true;
      RefPP now = alpha(*sp, &ok);
      if (!ok || now != expect) return "the result of the earlier call " + what + " now denotes " + now.str() + " instead of " + expect.str();
      return "";
    });
  }
};

static std::string P(const char *prop, const char *kind) { return std::string("seq:") + prop + ":" + kind; }

template <size_t o>
static void expect_spline(Ctx &c, const char *prop, const std::string &what, const Spline<S, o> &got, const RefPP &ex, bool keep = true) {
  bool ok = true;
  RefPP g = alpha(got, &ok);
  c.results.push_back(dump(got));
  if (!ok || g != ex) c.fail(P(prop, "wrong-result"), what + " = " + g.str() + ", exact = " + ex.str());
  if (keep) c.retain(got, g, what);  // (results on temporary grids are not kept: they would keep the grid alive)  what was returned must stay what it was (right or wrong: a wrong value is reported above)
}
static void expect_val(Ctx &c, const char *prop, const std::string &what, const mpq_class &got, const mpq_class &ex) {
  c.results.push_back(got.get_str());
  if (got != ex) c.fail(P(prop, "wrong-result"), what + " = " + got.get_str() + ", exact = " + ex.get_str());
}
template <size_t o>
static void operand(Ctx &c, const char *nm, const Spline<S, o> &s, const RefPP &r) {
  bool ok = true;
  RefPP now = alpha(s, &ok);
  if (!ok || now != r) c.fail("seq:C14:operand-changed", std::string("persistent spline ") + nm + " denotes " + now.str() + " but its reference state is " + r.str());
}

// ---------------------------------------------------------------------------
// shared persistent splines on a 6-point grid and an equal grid in a distinct object
struct Base {
  using S1 = Spline<S, 1>;
  using S2 = Spline<S, 2>;
  using S3 = Spline<S, 3>;
  std::vector<mpq_class> pts = grid_family("nonuni", 6);
  Grid<S> g = mkgrid<S>(pts), gc = mkgrid<S>(pts);
  S2 a = mkspline_p<S, 2>(g, Win{0, 4}, 9 + 1), b = mkspline_p<S, 2>(g, Win{2, 6}, 9 + 2), c = mkspline_p<S, 2>(gc, Win{1, 3}, 3 + 1);
  S1 d = mkspline_p<S, 1>(g, Win{0, 6}, 10 + 1);
  S3 e = mkspline_p<S, 3>(g, Win{1, 5}, 12 + 2);
  S1 v1 = mkspline_p<S, 1>(g, Win{1, 5}, 6 + 1), v2 = mkspline_p<S, 1>(gc, Win{0, 3}, 4 + 2);
  RefPP ra = alpha(a), rb = alpha(b), rc = alpha(c), rd = alpha(d), re = alpha(e);
  const RefPP rv1 = alpha(v1), rv2 = alpha(v2);
  // a logically DIFFERENT grid (other points, other size): anything remembered per interval index or per window from an
  // earlier call on G must not leak into a call on H
  std::vector<mpq_class> hpts = grid_family("sym", 6);
  Grid<S> gh = mkgrid<S>(hpts);
  S2 h1 = mkspline_p<S, 2>(gh, Win{0, 5}, 12 + 1), h2 = mkspline_p<S, 2>(gh, Win{1, 4}, 6 + 2), h3 = mkspline_p<S, 2>(gh, Win{2, 6}, 9 + 1);
  const RefPP rh1 = alpha(h1), rh2 = alpha(h2), rh3 = alpha(h3);
  // TEMPORARY grids with the same number of points and different values, built, used and destroyed inside one call:
  // the next one is likely to be allocated where the last one lived (anything keyed by the ADDRESS of grid data)
  static std::vector<mpq_class> tpts(int k) {
    if (k == 0) return {mq(-2), mq(-1), mq(1, 2), mq(1), mq(3), mq(4)};
    if (k == 1) return {mq(-2), mq(-3, 2), mq(0), mq(2), mq(5, 2), mq(4)};
    return {mq(0), mq(1), mq(2), mq(3), mq(4), mq(5)};
  }
  template <class F>
  void with_temp(int k, F f) {
    std::vector<mpq_class> p = tpts(k);
    Grid<S> t = mktempgrid<S>(p);
    S2 s1 = mkspline_p<S, 2>(t, Win{0, 6}, 15 + 1 + (size_t)(k % 2)), s2 = mkspline_p<S, 2>(t, Win{1, 5}, 9 + 2);
    RefPP r1 = alpha(s1), r2 = alpha(s2);
    f(s1, r1, s2, r2, p);
  }
  static constexpr int NMUT = 5;
  static const char *mutname(int i) {
    static const char *N[] = {"a=c", "b*=2", "a+=b", "swap(a,b)", "v1src*=3"};
    return N[i];
  }
  void mutate(int i) {
    switch (i) {
      case 0: a = c; ra = rc; break;
      case 1: b *= mk<S>(mq(2)); rb = rscale(rb, mq(2)); break;
      case 2: a += b; ra = radd(ra, rb); break;
      case 3: std::swap(a, b); std::swap(ra, rb); break;
      case 4: v1 *= mk<S>(mq(3)); break;  // the spline the factor of the persistent operators was COPIED from: they must not follow
    }
  }
  void operands(Ctx &x) {
    operand(x, "a", a, ra); operand(x, "b", b, rb); operand(x, "c", c, rc); operand(x, "d", d, rd); operand(x, "e", e, re);
    operand(x, "h1", h1, rh1); operand(x, "h2", h2, rh2); operand(x, "h3", h3, rh3);
  }
};

// ---- C06: long-lived bilinear forms ------------------------------------------
struct DomBF : Base {
  static constexpr const char *prop = "C06";
  static constexpr bool pure = false;
  using Op = decltype(SplineOperator{std::declval<S1>()} * Dx<1>{});
  using F = BilinearForm<Op, X<1>>;
  const F F1{SplineOperator{v1} * Dx<1>{}, X<1>{}}, F2{SplineOperator{v2} * Dx<1>{}, X<1>{}};
  const BilinearForm<IdentityOperator, IdentityOperator> F0{};
  const BilinearForm<X<1>, Dx<1>> FX{};
  AstP o1 = aProd(aV(&rv1), aD(1)), o1b = aProd(aV(&rv2), aD(1)), o2 = aX(1), oi = aI(), od = aD(1);
  mpq_class ex(const AstP &l, const AstP &r, const RefPP &x, const RefPP &y) { return rinteg(rmul(ref_apply(*l, x), ref_apply(*r, y)), pts); }
  mpq_class exh(const AstP &l, const AstP &r, const RefPP &x, const RefPP &y) { return rinteg(rmul(ref_apply(*l, x), ref_apply(*r, y)), hpts); }
  static constexpr int NQ = 17;
  size_t n() const { return NQ + NMUT; }
  std::string name(size_t i) const {
    static const char *N[] = {"F1(a,b)", "F1(b,a)", "F1(c,b)", "F1(a,a)", "F2(a,b)", "F0(a,b)", "F1(a,d)", "F1(d,e)", "{F c(F1);c(b,a)}", "FX(a,b)", "FX(h1,h2)", "F0(h2,h1)", "FX(h3,h1)", "F0(h3,h3)", "FX(tmp0)", "FX(tmp1)", "FX(tmp2)"};
    return i < NQ ? N[i] : mutname(i - NQ);
  }
  void call(size_t i, Ctx &x) {
    std::string w = name(i);
    switch (i) {
      case 0: expect_val(x, prop, w, val(F1(a, b)), ex(o1, o2, ra, rb)); break;
      case 1: expect_val(x, prop, w, val(F1(b, a)), ex(o1, o2, rb, ra)); break;
      case 2: expect_val(x, prop, w, val(F1(c, b)), ex(o1, o2, rc, rb)); break;
      case 3: expect_val(x, prop, w, val(F1(a, a)), ex(o1, o2, ra, ra)); break;
      case 4: expect_val(x, prop, w, val(F2(a, b)), ex(o1b, o2, ra, rb)); break;
      case 5: expect_val(x, prop, w, val(F0(a, b)), ex(oi, oi, ra, rb)); break;
      case 6: expect_val(x, prop, w, val(F1(a, d)), ex(o1, o2, ra, rd)); break;
      case 7: expect_val(x, prop, w, val(F1.evaluate(d, e)), ex(o1, o2, rd, re)); break;
      case 8: { F cp(F1); expect_val(x, prop, w, val(cp(b, a)), ex(o1, o2, rb, ra)); break; }
      case 9: expect_val(x, prop, w, val(FX(a, b)), ex(o2, od, ra, rb)); break;
      case 10: expect_val(x, prop, w, val(FX(h1, h2)), exh(o2, od, rh1, rh2)); break;
      case 11: expect_val(x, prop, w, val(F0(h2, h1)), exh(oi, oi, rh2, rh1)); break;
      case 12: expect_val(x, prop, w, val(FX(h3, h1)), exh(o2, od, rh3, rh1)); break;
      case 13: expect_val(x, prop, w, val(F0(h3, h3)), exh(oi, oi, rh3, rh3)); break;
      case 14: case 15: case 16:
        with_temp((int)i - 14, [&](const S2 &s1, const RefPP &r1, const S2 &s2, const RefPP &r2, const std::vector<mpq_class> &p) {
          expect_val(x, prop, w, val(FX(s1, s2)), rinteg(rmul(ref_apply(*o2, r1), ref_apply(*od, r2)), p));
        });
        break;
      default: mutate(i - NQ); x.results.push_back("-");
    }
    operands(x);
  }
};

// ---- C07: long-lived linear forms ---------------------------------------------
struct DomLF : Base {
  static constexpr const char *prop = "C07";
  static constexpr bool pure = false;
  using Op = decltype(SplineOperator{std::declval<S1>()} * Dx<1>{} + X<2>{});
  using L = LinearForm<Op>;
  const L L1{SplineOperator{v1} * Dx<1>{} + X<2>{}}, L2{SplineOperator{v2} * Dx<1>{} + X<2>{}};
  const LinearForm<IdentityOperator> L0{};
  const LinearForm<X<2>> LX{};
  AstP o1 = aSum(aProd(aV(&rv1), aD(1)), aX(2)), o1b = aSum(aProd(aV(&rv2), aD(1)), aX(2)), oi = aI(), ox = aX(2);
  mpq_class ex(const AstP &l, const RefPP &x) { return rinteg(ref_apply(*l, x), pts); }
  mpq_class exh(const AstP &l, const RefPP &x) { return rinteg(ref_apply(*l, x), hpts); }
  static constexpr int NQ = 17;
  size_t n() const { return NQ + NMUT; }
  std::string name(size_t i) const {
    static const char *N[] = {"L1(a)", "L1(b)", "L1(c)", "L1(d)", "L1(e)", "L2(a)", "L0(a)", "L1(S2(g))", "{L c(L1);c(b)}", "LX(a)", "LX(h1)", "L0(h2)", "LX(h3)", "LX(b)", "LX(tmp0)", "LX(tmp1)", "LX(tmp2)"};
    return i < NQ ? N[i] : mutname(i - NQ);
  }
  void call(size_t i, Ctx &x) {
    std::string w = name(i);
    switch (i) {
      case 0: expect_val(x, prop, w, val(L1(a)), ex(o1, ra)); break;
      case 1: expect_val(x, prop, w, val(L1(b)), ex(o1, rb)); break;
      case 2: expect_val(x, prop, w, val(L1(c)), ex(o1, rc)); break;
      case 3: expect_val(x, prop, w, val(L1(d)), ex(o1, rd)); break;
      case 4: expect_val(x, prop, w, val(L1.evaluate(e)), ex(o1, re)); break;
      case 5: expect_val(x, prop, w, val(L2(a)), ex(o1b, ra)); break;
      case 6: expect_val(x, prop, w, val(L0(a)), ex(oi, ra)); break;
      case 7: expect_val(x, prop, w, val(L1(S2(g))), mpq_class(0)); break;
      case 8: { L cp(L1); expect_val(x, prop, w, val(cp(b)), ex(o1, rb)); break; }
      case 9: expect_val(x, prop, w, val(LX(a)), ex(ox, ra)); break;
      case 10: expect_val(x, prop, w, val(LX(h1)), exh(ox, rh1)); break;
      case 11: expect_val(x, prop, w, val(L0(h2)), exh(oi, rh2)); break;
      case 12: expect_val(x, prop, w, val(LX(h3)), exh(ox, rh3)); break;
      case 13: expect_val(x, prop, w, val(LX(b)), ex(ox, rb)); break;
      case 14: case 15: case 16:
        with_temp((int)i - 14, [&](const S2 &s1, const RefPP &r1, const S2 &, const RefPP &, const std::vector<mpq_class> &p) {
          expect_val(x, prop, w, val(LX(s1)), rinteg(ref_apply(*ox, r1), p));
        });
        break;
      default: mutate(i - NQ); x.results.push_back("-");
    }
    operands(x);
  }
};

// ---- C05: long-lived operator expressions ------------------------------------
struct DomOp : Base {
  static constexpr const char *prop = "C05";
  static constexpr bool pure = false;
  using Op = decltype((X<1>{} * Dx<1>{} + SplineOperator{std::declval<S1>()}) / 2);
  const Op E1{(X<1>{} * Dx<1>{} + SplineOperator{v1}) / 2}, E2{(X<1>{} * Dx<1>{} + SplineOperator{v2}) / 2};
  using Cm = decltype(Dx<1>{} * X<1>{} - X<1>{} * Dx<1>{});
  const Cm E3{Dx<1>{} * X<1>{} - X<1>{} * Dx<1>{}};
  AstP o1 = aDiv(aSum(aProd(aX(1), aD(1)), aV(&rv1)), mq(2)), o2 = aDiv(aSum(aProd(aX(1), aD(1)), aV(&rv2)), mq(2)),
       o3 = aDiff(aProd(aD(1), aX(1)), aProd(aX(1), aD(1)));
  static constexpr int NQ = 16;
  size_t n() const { return NQ + NMUT; }
  std::string name(size_t i) const {
    static const char *N[] = {"E1*a", "E1*b", "E1*c", "E1*d", "E2*a", "E3*a", "E3*e", "{Op c(E1);c*b}", "E1*S2(g)", "E3*h1", "E3*h2", "E3*h3", "E3*b", "E3*tmp0", "E3*tmp1", "E3*tmp2"};
    return i < NQ ? N[i] : mutname(i - NQ);
  }
  void call(size_t i, Ctx &x) {
    std::string w = name(i);
    switch (i) {
      case 0: expect_spline(x, prop, w, E1 * a, ref_apply(*o1, ra)); break;
      case 1: expect_spline(x, prop, w, E1 * b, ref_apply(*o1, rb)); break;
      case 2: expect_spline(x, prop, w, E1 * c, ref_apply(*o1, rc)); break;
      case 3: expect_spline(x, prop, w, E1 * d, ref_apply(*o1, rd)); break;
      case 4: expect_spline(x, prop, w, E2 * a, ref_apply(*o2, ra)); break;
      case 5: expect_spline(x, prop, w, E3 * a, ref_apply(*o3, ra)); break;
      case 6: expect_spline(x, prop, w, E3 * e, ref_apply(*o3, re)); break;
      case 7: { Op cp(E1); expect_spline(x, prop, w, cp * b, ref_apply(*o1, rb)); break; }
      case 8: expect_spline(x, prop, w, E1 * S2(g), RefPP()); break;
      case 9: expect_spline(x, prop, w, E3 * h1, ref_apply(*o3, rh1)); break;
      case 10: expect_spline(x, prop, w, E3 * h2, ref_apply(*o3, rh2)); break;
      case 11: expect_spline(x, prop, w, E3 * h3, ref_apply(*o3, rh3)); break;
      case 12: expect_spline(x, prop, w, E3 * b, ref_apply(*o3, rb)); break;
      case 13: case 14: case 15:
        with_temp((int)i - 13, [&](const S2 &s1, const RefPP &r1, const S2 &, const RefPP &, const std::vector<mpq_class> &) {
          expect_spline(x, prop, w, E3 * s1, ref_apply(*o3, r1), false);
        });
        break;
      default: mutate(i - NQ); x.results.push_back("-");
    }
    operands(x);
  }
};

// ---- C04: primitive operators (tables behind factorials / binomials) ------------
struct DomPrim : Base {
  static constexpr const char *prop = "C04";
  static constexpr bool pure = true;
  // three operator instantiations on five splines over two different grids with windows that start / end at the same interval
  // indices (anything remembered per operator instantiation and interval index), plus high powers and orders
  const S2 *sp[5] = {&a, &b, &h1, &h2, &h3};
  const RefPP *rp[5] = {&ra, &rb, &rh1, &rh2, &rh3};
  size_t n() const { return 15 + 6 + 4; }
  std::string name(size_t i) const {
    static const char *O[] = {"X<2>*", "X<3>*", "Dx<1>*"};
    static const char *V[] = {"a", "b", "h1", "h2", "h3"};
    static const char *N[] = {"X<5>*d", "X<6>*c", "X<9>*d", "Dx<3>*e", "Dx<3>*b", "I*a", "X<2>*tmp0", "X<2>*tmp1", "X<2>*tmp2", "Dx<1>*tmp1"};
    return i < 15 ? std::string(O[i / 5]) + V[i % 5] : N[i - 15];
  }
  void call(size_t i, Ctx &x) {
    std::string w = name(i);
    if (i < 15) {
      const S2 &f = *sp[i % 5];
      const RefPP &r = *rp[i % 5];
      if (i / 5 == 0) expect_spline(x, prop, w, X<2>{} * f, rmulx(r, 2));
      else if (i / 5 == 1) expect_spline(x, prop, w, X<3>{} * f, rmulx(r, 3));
      else expect_spline(x, prop, w, Dx<1>{} * f, rderiv(r, 1));
    } else switch (i - 15) {
      case 0: expect_spline(x, prop, w, X<5>{} * d, rmulx(rd, 5)); break;
      case 1: expect_spline(x, prop, w, X<6>{} * c, rmulx(rc, 6)); break;
      case 2: expect_spline(x, prop, w, X<9>{} * d, rmulx(rd, 9)); break;
      case 3: expect_spline(x, prop, w, Dx<3>{} * e, rderiv(re, 3)); break;
      case 4: expect_spline(x, prop, w, Dx<3>{} * b, rderiv(rb, 3)); break;
      case 5: expect_spline(x, prop, w, IdentityOperator{} * a, ra); break;
      case 6: case 7: case 8:
        with_temp((int)i - 21, [&](const S2 &s1, const RefPP &r1, const S2 &, const RefPP &, const std::vector<mpq_class> &) {
          expect_spline(x, prop, w, X<2>{} * s1, rmulx(r1, 2), false);
        });
        break;
      case 9:
        with_temp(1, [&](const S2 &, const RefPP &, const S2 &s2, const RefPP &r2, const std::vector<mpq_class> &) {
          expect_spline(x, prop, w, Dx<1>{} * s2, rderiv(r2, 1), false);
        });
        break;
    }
    operands(x);
  }
};

// ---- C01: long-lived generators ---------------------------------------------------
struct DomGen {
  static constexpr const char *prop = "C01";
  static constexpr bool pure = true;
  std::vector<mpq_class> K1 = {mq(0), mq(1), mq(1), mq(2), mq(7, 2), mq(7, 2), mq(7, 2), mq(4), mq(6)};
  std::vector<mpq_class> K2 = {mq(-3), mq(-3), mq(-1), mq(0), mq(1, 2), mq(2), mq(2), mq(5), mq(5)};
  std::vector<mpq_class> K4 = {mq(0), mq(1, 2), mq(1), mq(2), mq(2), mq(3), mq(7, 2), mq(4), mq(6)};  // same length and end points as K1
  std::vector<mpq_class> G1p = uniq(K1), G2p = uniq(K2), G4p = uniq(K4);
  static std::vector<mpq_class> uniq(std::vector<mpq_class> k) { k.erase(std::unique(k.begin(), k.end()), k.end()); return k; }
  const BSplineGenerator<S> G1{to_s<S>(K1)}, G2{to_s<S>(K2)};
  Grid<S> own = mkgrid<S>(G1p);
  const BSplineGenerator<S> G3{to_s<S>(K1), own};
  const BSplineGenerator<S> G4{to_s<S>(K4)};
  size_t n() const { return 12; }
  std::string name(size_t i) const {
    static const char *N[] = {"G1.gen<0>", "G1.gen<1>", "G1.gen<2>", "G1.gen<3>", "G2.gen<1>", "G2.gen<2>", "G2.gen<3>", "G3.gen<2>", "{G c(G1);c.gen<2>}", "generateBSplines<2>(K2)", "G4.gen<1>", "G4.gen<2>"};
    return N[i];
  }
  template <size_t p, class V>
  void chk(Ctx &x, const std::string &w, const V &v, const std::vector<mpq_class> &K, const std::vector<mpq_class> &gp) {
    size_t want = K.size() - p - 1;
    std::string res;
    if (v.size() != want) x.fail(P(prop, "wrong-result"), w + " returned " + std::to_string(v.size()) + " functions instead of " + std::to_string(want));
    for (size_t i = 0; i < v.size() && i < want; i++) {
      RefPP ex = ref_bspline(K, gp, i, p);
      bool ok = true;
      RefPP g = alpha(v[i], &ok);
      res += dump(v[i]) + "|";
      if (!ok || g != ex) x.fail(P(prop, "wrong-result"), w + "[" + std::to_string(i) + "] = " + g.str() + ", Cox-de Boor = " + ex.str());
      x.retain(v[i], g, w + "[" + std::to_string(i) + "]");
    }
    x.results.push_back(res);
  }
  void call(size_t i, Ctx &x) {
    std::string w = name(i);
    switch (i) {
      case 0: chk<0>(x, w, G1.template generateBSplines<0>(), K1, G1p); break;
      case 1: chk<1>(x, w, G1.template generateBSplines<1>(), K1, G1p); break;
      case 2: chk<2>(x, w, G1.template generateBSplines<2>(), K1, G1p); break;
      case 3: chk<3>(x, w, G1.template generateBSplines<3>(), K1, G1p); break;
      case 4: chk<1>(x, w, G2.template generateBSplines<1>(), K2, G2p); break;
      case 5: chk<2>(x, w, G2.template generateBSplines<2>(), K2, G2p); break;
      case 6: chk<3>(x, w, G2.template generateBSplines<3>(), K2, G2p); break;
      case 7: chk<2>(x, w, G3.template generateBSplines<2>(), K1, G1p); break;
      case 8: { BSplineGenerator<S> cp(G1); chk<2>(x, w, cp.template generateBSplines<2>(), K1, G1p); break; }
      case 9: chk<2>(x, w, bspline::generateBSplines<2>(to_s<S>(K2)), K2, G2p); break;
      case 10: chk<1>(x, w, G4.template generateBSplines<1>(), K4, G4p); break;
      case 11: chk<2>(x, w, G4.template generateBSplines<2>(), K4, G4p); break;
    }
    if (gridpts(G1.getGrid()) != G1p || gridpts(G2.getGrid()) != G2p || gridpts(G3.getGrid()) != G1p) x.fail("seq:C14:operand-changed", "the grid of a persistent generator changed");
  }
};

// ---- C02: sequences of evaluations and replacements of one long-lived spline ---------
struct DomEval {
  static constexpr const char *prop = "C02";
  static constexpr bool pure = false;
  using S2 = Spline<S, 2>;
  using S1 = Spline<S, 1>;
  std::vector<mpq_class> pts = grid_family("nonuni", 7);
  Grid<S> g = mkgrid<S>(pts);
  S2 s = mkspline_p<S, 2>(g, Win{1, 6}, 12 + 1), t = mkspline_p<S, 2>(g, Win{0, 3}, 6 + 2);
  S1 u = mkspline_p<S, 1>(g, Win{3, 7}, 6 + 1);
  RefPP rs = alpha(s), rt = alpha(t), ru = alpha(u);
  Win ws{1, 6}, wt{0, 3};
  std::vector<mpq_class> X;
  DomEval() {
    // front, an interior grid point, back, interiors of three intervals, just outside on both sides, far outside
    X = {pts[1], pts[3], pts[5], (pts[1] + pts[2]) / 2, (pts[3] * 3 + pts[4]) / 4, (pts[4] + pts[5] * 7) / 8, pts[0], pts[6], mq(-1000), (pts[0] + pts[1]) / 2};
  }
  size_t n() const { return X.size() + 2 + 5; }
  std::string name(size_t i) const {
    if (i < X.size()) return "s(" + X[i].get_str() + ")";
    static const char *N[] = {"t(1/4)", "t(-2)", "s=t", "s+=t", "s=u", "swap(s,t)", "s*=2"};
    return N[i - X.size()];
  }
  // value set allowed by the statement: zero outside the closed support, the piece's value inside an interval, either adjacent piece at a shared grid point
  void chk(Ctx &x, const std::string &w, const S2 &f, const RefPP &rf, const mpq_class &at) {
    mpq_class got = val(f(mk<S>(at)));
    x.results.push_back(got.get_str());
    size_t st = f.getSupport().getStartIndex(), en = f.getSupport().getEndIndex();
    std::vector<mpq_class> allowed;
    if (en - st < 2 || at < pts[st] || at > pts[en - 1]) allowed.push_back(0);
    else
      for (size_t i = st; i + 1 < en; i++)
        if (pts[i] <= at && at <= pts[i + 1]) allowed.push_back(peval(rf.get(i), at));
    bool ok = false;
    for (auto &v : allowed) ok = ok || v == got;
    if (!ok) x.fail(P(prop, "wrong-result"), w + " = " + got.get_str() + ", stored polynomial gives " + (allowed.empty() ? std::string("?") : allowed[0].get_str()));
  }
  void call(size_t i, Ctx &x) {
    std::string w = name(i);
    if (i < X.size()) chk(x, w, s, rs, X[i]);
    else switch (i - X.size()) {
      case 0: chk(x, w, t, rt, mq(1, 4)); break;
      case 1: chk(x, w, t, rt, mq(-2)); break;
      case 2: s = t; rs = rt; x.results.push_back("-"); break;
      case 3: s += t; rs = radd(rs, rt); x.results.push_back("-"); break;
      case 4: s = u; rs = ru; x.results.push_back("-"); break;
      case 5: std::swap(s, t); std::swap(rs, rt); x.results.push_back("-"); break;
      case 6: s *= mk<S>(mq(2)); rs = rscale(rs, mq(2)); x.results.push_back("-"); break;
    }
    operand(x, "s", s, rs); operand(x, "t", t, rt); operand(x, "u", u, ru);
  }
};


// ---- C13 / C08: grids that come and go (equality and refusal must not depend on what was compared, kept or freed before) -----
template <class T>
struct DomGridT {
  static constexpr const char *prop = "C13";
  static constexpr bool pure = true;
  using S1 = Spline<T, 1>;
  std::vector<mpq_class> pa = grid_family("nonuni", NPTS);
  static constexpr size_t NPTS = 8;
  Grid<T> A = mkgrid<T>(pa);
  S1 a = mk1(A, 0);
  Support<T> sA{A, 1, 6};
  std::vector<std::unique_ptr<Grid<T>>> kept;  // grids kept alive across calls
  static S1 mk1(const Grid<T> &g, int var) {
    std::vector<std::array<T, 2>> c;
    for (size_t i = 0; i + 1 < g.size(); i++) c.push_back({mk<T>(mq(3 + 2 * (long)i + var)), mk<T>(mq(-5 + (long)i, 2))});
    return S1(Support<T>(g, 0, g.size()), std::move(c));
  }
  std::vector<mpq_class> pts(int kind) const {
    std::vector<mpq_class> p = pa;
    switch (kind) {
      case 0: break;                                   // equal points, distinct object
      case 1: p[3] += mq(1, 4); break;                 // one interior point moved (same size)
      case 2: p[NPTS - 1] += 1; break;                 // last point moved (same size): agrees on every window not touching it
      case 3: p.push_back(p.back() + 2); break;        // extension
      case 4: p.pop_back(); break;                     // proper prefix
      case 5: p[0] -= 1; break;                        // first point moved (same size)
      case 6: std::swap(p[2], p[3]); break;            // MALFORMED: unordered (same size)
      case 7: p[4] = p[3]; break;                      // MALFORMED: duplicate (same size)
    }
    return p;
  }
  // equal points, distinct object, but the grid point 0 stored as -0.0 (floating types only): +0 and -0 are the same point
  Grid<T> negzero_copy() const {
    std::vector<T> v = to_s<T>(pa);
    if constexpr (std::is_floating_point_v<T>)
      for (auto &e : v) if (e == T(0)) e = -T(0);
    ArenaScope scope;
    std::vector<T> w(v);
    return Grid<T>(std::move(w));
  }
  static const char *kn(int k) { static const char *N[] = {"eq", "moved3", "movedlast", "ext", "prefix", "movedfirst"}; return N[k]; }
  size_t n() const { return 6 + 6 + 5 + 3 + 3 + 3 + 3 + 1; }
  std::string name(size_t i) const {
    if (i < 6) return std::string("sA==Support(") + kn((int)i) + ")";
    if (i < 12) return std::string("Support(") + kn((int)i - 6) + ")==sA";
    if (i < 17) { static const char *N[] = {"a+s(eq)", "a+s(moved3)", "a*s(movedlast)", "s(movedfirst)+a", "{t=a;t+=s(moved3)}"}; return N[i - 12]; }
    if (i < 20) { static const char *N[] = {"SP(a,s(eq))", "SP(a,s(movedlast))", "sA.calcUnion(Support(moved3))"}; return N[i - 17]; }
    if (i < 23) { static const char *N[] = {"keep(eq)", "keep(moved3)", "keep(movedlast)"}; return N[i - 20]; }
    static const char *N[] = {"drop-last", "drop-all", "A==kept", "Grid(unordered)", "Grid(duplicate)", "Grid(valid-temp)", "sA==Support(eq,-0.0)"};
    return N[i - 23];
  }
  void outcome(Ctx &x, const char *pr, const std::string &w, const std::string &got, const std::string &want) {
    x.results.push_back(got);
    if (got != want) x.fail(P(pr, "wrong-result"), w + " -> " + got + ", expected " + want);
  }
  template <class F>
  std::string refusal(F f) {
    try { f(); } catch (const BSplineException &e) { return e.getErrorCode() == ErrorCode::DIFFERING_GRIDS ? "refused" : "threw-other-code"; }
    return "computed";
  }
  void call(size_t i, Ctx &x) {
    std::string w = name(i);
    if (i < 6) {
      Grid<T> t = mktempgrid<T>(pts((int)i));
      Support<T> st(t, 1, 6);
      bool eq = (sA == st), ne = (sA != st), same = sA.hasSameGrid(st);
      outcome(x, "C13", w, std::string(eq ? "eq" : "ne") + (ne ? ":ne" : ":eq") + (same ? ":samegrid" : ":othergrid"), i == 0 ? "eq:eq:samegrid" : "ne:ne:othergrid");
    } else if (i < 12) {
      Grid<T> t = mktempgrid<T>(pts((int)i - 6));
      Support<T> st(t, 1, 6);
      bool eq = (st == sA), same = (t == A);
      outcome(x, "C13", w, std::string(eq ? "eq" : "ne") + (same ? ":samegrid" : ":othergrid"), i == 6 ? "eq:samegrid" : "ne:othergrid");
    } else if (i < 17) {
      int kind = i == 12 ? 0 : i == 13 ? 1 : i == 14 ? 2 : i == 15 ? 5 : 1;
      Grid<T> t = mktempgrid<T>(pts(kind));
      S1 o = mk1(t, 1);
      std::string r;
      if (i == 12) { S1 sum = a; r = refusal([&] { sum = a + o; }); if (r == "computed" && !(sum == a + mk1(A, 1))) r = "computed-differently"; }
      else if (i == 13) r = refusal([&] { (void)(a + o); });
      else if (i == 14) r = refusal([&] { (void)(a * o); });
      else if (i == 15) r = refusal([&] { (void)(o + a); });
      else { S1 tcopy = a; r = refusal([&] { tcopy += o; }); if (!(tcopy == a)) r += ":target-changed"; }
      outcome(x, "C08", w, r, i == 12 ? "computed" : "refused");
    } else if (i < 20) {
      std::string r;
      if (i == 17) { Grid<T> t = mktempgrid<T>(pts(0)); S1 o = mk1(t, 1); T v1{}, v2{}; r = refusal([&] { v1 = bspline::integration::ScalarProduct{}(a, o); v2 = bspline::integration::ScalarProduct{}(a, mk1(A, 1)); }); if (r == "computed" && !(v1 == v2)) r = "computed-differently"; }
      else if (i == 18) { Grid<T> t = mktempgrid<T>(pts(2)); S1 o = mk1(t, 1); r = refusal([&] { (void)bspline::integration::ScalarProduct{}(a, o); }); }
      else { Grid<T> t = mktempgrid<T>(pts(1)); Support<T> st(t, 0, 3); r = refusal([&] { (void)sA.calcUnion(st); }); }
      outcome(x, "C08", w, r, i == 17 ? "computed" : "refused");
    } else if (i < 23) {
      kept.push_back(std::unique_ptr<Grid<T>>(new Grid<T>(mktempgrid<T>(pts(i == 20 ? 0 : i == 21 ? 1 : 2)))));
      x.results.push_back("-");
    } else if (i == 23) {
      if (!kept.empty()) kept.pop_back();
      x.results.push_back("-");
    } else if (i == 24) {
      kept.clear();
      x.results.push_back("-");
    } else if (i == 29) {
      Grid<T> t = negzero_copy();
      Support<T> st(t, 1, 6);
      bool eq = (sA == st), same = (A == t) && (t == A);
      std::string un = refusal([&] { (void)sA.calcUnion(st); });
      outcome(x, "C13", w, std::string(eq ? "eq" : "ne") + (same ? ":samegrid" : ":othergrid") + ":" + un, "eq:samegrid:computed");
    } else if (i >= 26) {
      std::string r = "accepted";
      try { Grid<T> t = mktempgrid<T>(pts(i == 26 ? 6 : i == 27 ? 7 : 0)); } catch (const BSplineException &) { r = "refused"; }
      outcome(x, "C11", w, r, i == 28 ? "accepted" : "refused");
    } else {
      std::string r;
      for (auto &k : kept) r += (A == *k) == (gridpts(*k) == pa) ? "t" : "F";
      x.results.push_back("-");   // depends on what is kept: judged against the points, not against the baseline
      if (r.find('F') != std::string::npos) x.fail("seq:C13:wrong-result", "A == kept[i] disagrees with the points for pattern " + r);
    }
    if (gridpts(A) != pa) x.fail("seq:C14:operand-changed", "the long-lived grid changed");
    bool ok = true;
    (void)alpha(a, &ok);
    if (!ok) x.fail("seq:C14:operand-changed", "the long-lived spline is inconsistent");
  }
};
using DomGrid = DomGridT<S>;
using DomGridD = DomGridT<double>;

// ---- mixed menu: one or two calls of every kind, no mutation (results are history independent) -----
struct DomMix {
  static constexpr const char *prop = "C14";
  static constexpr bool pure = true;
  DomBF bf; DomLF lf; DomOp op; DomPrim pr; DomGen ge; DomEval ev;
  struct Ref { int dom; size_t call; };
  std::vector<Ref> M = {{0, 0}, {0, 6}, {0, 10}, {1, 0}, {1, 4}, {1, 10}, {2, 0}, {2, 5}, {2, 9}, {3, 5}, {3, 2}, {3, 18}, {4, 2}, {4, 6}, {5, 1}, {5, 4}};
  std::vector<mpq_class> cs = {mq(2), mq(-1, 3)};
  size_t n() const { return M.size() + 2 + 3; }
  std::string name(size_t i) const {
    if (i == M.size()) return "lincomb({2,-1/3},{a,b})";
    if (i == M.size() + 1) return "a*b,a+b,a==b,isZero";
    if (i >= M.size() + 2) return "arith(tmp" + std::to_string(i - M.size() - 2) + ")";
    const Ref &r = M[i];
    switch (r.dom) {
      case 0: return bf.name(r.call);
      case 1: return lf.name(r.call);
      case 2: return op.name(r.call);
      case 3: return pr.name(r.call);
      case 4: return ge.name(r.call);
      default: return ev.name(r.call);
    }
  }
  void call(size_t i, Ctx &x) {
    if (i == M.size()) {
      std::vector<S> c{mk<S>(cs[0]), mk<S>(cs[1])};
      std::vector<Base::S2> v{bf.a, bf.b};
      expect_spline(x, "C03", name(i), linearCombination(c, v), radd(rscale(bf.ra, cs[0]), rscale(bf.rb, cs[1])));
      return;
    }
    if (i >= M.size() + 2) {  // arithmetic on a temporary grid (same size as the previous temporary one, other points)
      bf.with_temp((int)(i - M.size() - 2), [&](const Base::S2 &s1, const RefPP &r1, const Base::S2 &s2, const RefPP &r2, const std::vector<mpq_class> &tp) {
        expect_spline(x, "C03", "s1*s2", s1 * s2, rmul(r1, r2), false);
        expect_spline(x, "C03", "s1+s2", s1 + s2, radd(r1, r2), false);
        expect_spline(x, "C03", "s1-s2", s1 - s2, rsub(r1, r2), false);
        std::vector<S> c{mk<S>(cs[0]), mk<S>(cs[1])};
        std::vector<Base::S2> v{s1, s2};
        expect_spline(x, "C03", "lincomb", linearCombination(c, v), radd(rscale(r1, cs[0]), rscale(r2, cs[1])), false);
        mpq_class at = (tp[1] + tp[2] * 3) / 4;  // strictly inside interval 1
        expect_val(x, "C02", "s1(inside interval 1)", val(s1(mk<S>(at))), peval(r1.get(1), at));
      });
      return;
    }
    if (i == M.size() + 1) {
      expect_spline(x, "C03", "a*b", bf.a * bf.b, rmul(bf.ra, bf.rb));
      expect_spline(x, "C03", "a+b", bf.a + bf.b, radd(bf.ra, bf.rb));
      x.results.push_back(std::string(bf.a == bf.b ? "eq" : "ne") + (bf.a.isZero() ? ":zero" : ":nonzero") + (Base::S2(bf.g).isZero() ? ":zero" : ":nonzero") + (bf.a.checkOverlap(bf.b) ? ":ov" : ":nov"));
      if (bf.a == bf.b || bf.a.isZero() || !Base::S2(bf.g).isZero() || !bf.a.checkOverlap(bf.b)) x.fail("seq:C15:wrong-result", "predicates on a,b: " + x.results.back());
      bf.operands(x);
      return;
    }
    const Ref &r = M[i];
    switch (r.dom) {
      case 0: bf.call(r.call, x); break;
      case 1: lf.call(r.call, x); break;
      case 2: op.call(r.call, x); break;
      case 3: pr.call(r.call, x); break;
      case 4: ge.call(r.call, x); break;
      default: ev.call(r.call, x); break;
    }
  }
};

#ifdef VF_QUAD
// ---- C17: free function integrate<n> called in sequences (double) ------------------------
struct DomQuad {
  static constexpr const char *prop = "C17";
  static constexpr bool pure = true;
  using T = double;
  using T2 = Spline<T, 2>;
  using T1 = Spline<T, 1>;
  std::vector<mpq_class> pts = grid_family("dyad", 6);
  Grid<T> g = mkgrid<T>(pts);
  T2 a = mk2(Win{0, 5}, 1), b = mk2(Win{2, 6}, 2);
  T1 d = mk1(Win{1, 4});
  RefPP ra = al(a), rb = al(b), rd = al(d);
  T2 mk2(Win w, int var) {
    std::vector<std::array<T, 3>> c;
    for (size_t i = 0; i < w.nint(); i++) c.push_back({0.5 + (double)i * var, -1.25 + (double)i, 0.375 * var});
    return T2(Support<T>(g, w.s, w.e), std::move(c));
  }
  T1 mk1(Win w) {
    std::vector<std::array<T, 2>> c;
    for (size_t i = 0; i < w.nint(); i++) c.push_back({1.5 - (double)i, 0.25 + 0.5 * (double)i});
    return T1(Support<T>(g, w.s, w.e), std::move(c));
  }
  template <size_t o>
  RefPP al(const Spline<T, o> &s) {
    RefPP r;
    size_t st = s.getSupport().getStartIndex();
    for (size_t i = 0; i < s.getCoefficients().size(); i++) {
      std::vector<mpq_class> c;
      for (size_t k = 0; k <= o; k++) c.push_back(mpq_class(s.getCoefficients()[i][k]));
      r.set(st + i, pexpand(c, (pts[st + i] + pts[st + i + 1]) / 2));
    }
    return r;
  }
  struct W {  // ONE callable type, different state: anything that identifies the weight by its type only
    int deg;
    T operator()(const T &y) const { T r = 1; for (int k = 0; k < deg; k++) r *= y; return r; }
  };
  size_t n() const { return 12; }
  std::string name(size_t i) const {
    static const char *N[] = {"int<4>(W0,a,b)", "int<4>(W1,a,b)", "int<4>(W2,a,b)", "int<4>(W3,a,b)", "int<4>(W1,b,a)", "int<3>(W0,d,d)", "int<3>(W1,d,d)", "int<4>(W1,a,d)", "int<4>(W2,a,d)", "int<6>(W2,a,a)", "int<6>(W4,a,a)", "int<4>(W0,b,b)"};
    return N[i];
  }
  template <size_t n_, class Fa, size_t oa, size_t ob>
  void chk(Ctx &x, const std::string &w, Fa f, size_t deg, const Spline<T, oa> &p, const RefPP &rp, const Spline<T, ob> &q, const RefPP &rq) {
    using bspline::integration::integrate;
    T got = integrate<n_>(f, p, q);
    char buf[64];
    snprintf(buf, sizeof buf, "%a", got);
    x.results.push_back(buf);
    Poly wp(deg + 1, mpq_class(0));
    wp[deg] = 1;
    mpq_class exact = 0, mag = 0;
    for (auto &kv : rp.pc) {
      size_t i = kv.first;
      if (!rq.pc.count(i)) continue;
      exact += pinteg(pmul(pmul(kv.second, rq.get(i)), wp), pts[i], pts[i + 1]);
      mpq_class m = std::max(abs(pts[i]), abs(pts[i + 1])), sp = 0, sq = 0, pw = 1;
      for (auto &c : kv.second) { sp += abs(c) * pw; pw *= m; }
      pw = 1;
      for (auto &c : rq.get(i)) { sq += abs(c) * pw; pw *= m; }
      mpq_class fm = 1;
      for (size_t k = 0; k < deg; k++) fm *= m;
      mag += (pts[i + 1] - pts[i]) * sp * sq * fm;
    }
    mpq_class err = abs(mpq_class(got) - exact), bound = mpq_class(1048576) * mpq_class(std::numeric_limits<T>::epsilon()) * mag;
    if (err > bound) x.fail(P(prop, "wrong-result"), w + " = " + std::string(buf) + ", exact = " + std::to_string(exact.get_d()) + " (error " + std::to_string(err.get_d()) + " > bound " + std::to_string(bound.get_d()) + ")");
  }
  void call(size_t i, Ctx &x) {
    std::string w = name(i);
    switch (i) {
      case 0: chk<4>(x, w, W{0}, 0, a, ra, b, rb); break;
      case 1: chk<4>(x, w, W{1}, 1, a, ra, b, rb); break;
      case 2: chk<4>(x, w, W{2}, 2, a, ra, b, rb); break;
      case 3: chk<4>(x, w, W{3}, 3, a, ra, b, rb); break;
      case 4: chk<4>(x, w, W{1}, 1, b, rb, a, ra); break;
      case 5: chk<3>(x, w, W{0}, 0, d, rd, d, rd); break;
      case 6: chk<3>(x, w, W{1}, 1, d, rd, d, rd); break;
      case 7: chk<4>(x, w, W{1}, 1, a, ra, d, rd); break;
      case 8: chk<4>(x, w, W{2}, 2, a, ra, d, rd); break;
      case 9: chk<6>(x, w, W{2}, 2, a, ra, a, ra); break;
      case 10: chk<6>(x, w, W{4}, 4, a, ra, a, ra); break;
      case 11: chk<4>(x, w, W{0}, 0, b, rb, b, rb); break;
    }
    if (al(a) != ra || al(b) != rb || al(d) != rd) x.fail("seq:C14:operand-changed", "an argument of integrate<n> changed");
  }
};
#endif


#ifdef VF_INTERP
// ---- C12: sequences of interpolation calls through the bundled dense solver (double) ------------------------------
struct DomInterp {
  static constexpr const char *prop = "C12";
  static constexpr bool pure = true;
  using T = double;
  using B = bspline::interpolation::Boundary<T>;
  using Node = bspline::interpolation::Node;
  std::vector<T> gx = {0, 1, 1.5, 3, 4, 6};
  Grid<T> g{gx};
  std::vector<T> Y0 = {1, -2, 0.5, 3, -1, 2}, Y1 = {0, 4, -3, 1, 2.5, -0.5};
  struct Call { int order; size_t s, e; int bset; int y; const char *name; };
  std::vector<Call> M = {
      {3, 0, 6, 0, 0, "o3[0,6)default,y0"}, {3, 0, 6, 1, 0, "o3[0,6)F1=1,F2=-2,y0"}, {3, 0, 6, 2, 1, "o3[0,6)L1=1,L2=-2,y1"}, {3, 0, 6, 3, 0, "o3[0,6)F2=1,L2=-2,y0"},
      {3, 1, 5, 0, 0, "o3[1,5)default,y0"}, {3, 1, 5, 3, 1, "o3[1,5)F2=1,L2=-2,y1"}, {3, 0, 4, 2, 0, "o3[0,4)L1=1,L2=-2,y0"}, {3, 0, 4, 1, 1, "o3[0,4)F1=1,F2=-2,y1"},
      {2, 0, 6, 0, 0, "o2[0,6)default,y0"}, {2, 0, 6, 2, 1, "o2[0,6)L1=1,y1"}, {2, 1, 5, 0, 1, "o2[1,5)default,y1"}, {2, 1, 5, 2, 0, "o2[1,5)L1=1,y0"},
      {4, 0, 6, 0, 0, "o4[0,6)default,y0"}, {4, 0, 6, 4, 1, "o4[0,6)F1=1,F2=-2,L1=3,y1"}};
  size_t n() const { return M.size(); }
  std::string name(size_t i) const { return M[i].name; }
  template <size_t order>
  std::array<B, order - 1> bset(int k) {
    std::array<B, order - 1> r = bspline::interpolation::internal::defaultBoundaries<T, order>();
    const T vals[] = {1, -2, 3};
    if (k == 0) return r;
    for (size_t j = 0; j + 1 < order; j++) {
      if (k == 1) r[j] = B{Node::FIRST, j + 1, vals[j]};
      else if (k == 2) r[j] = B{Node::LAST, j + 1, vals[j]};
      else if (k == 3) r[j] = B{j == 0 ? Node::FIRST : Node::LAST, 2, vals[j]};
      else r[j] = j < 2 ? B{Node::FIRST, j + 1, vals[j]} : B{Node::LAST, 1, vals[j]};
    }
    return r;
  }
  template <size_t order, size_t d>
  static T deriv_at(const Spline<T, order> &s, T x) {
    if constexpr (d > order) return 0;
    else return (Dx<d>{} * s)(x);
  }
  template <size_t order>
  void run(const Call &c, Ctx &x) {
    std::vector<T> y((c.y ? Y1 : Y0).begin() + c.s, (c.y ? Y1 : Y0).begin() + c.e);
    auto bs = bset<order>(c.bset);
    Spline<T, order> s = bspline::interpolation::interpolateUsingEigen<T, order>(Support<T>(g, c.s, c.e), y, bs);
    std::string res;
    char buf[40];
    for (auto &a : s.getCoefficients()) for (auto &v : a) { snprintf(buf, sizeof buf, "%a,", v); res += buf; }
    x.results.push_back(res);
    const T tol = 1e-8;
    for (size_t i = c.s; i < c.e; i++) {
      // both adjacent pieces take the ordinate: evaluate slightly inside on both sides is not exact, so use the node itself
      T v = s(gx[i]);
      if (!(std::abs(v - y[i - c.s]) <= tol * 10)) { x.fail(P(prop, "wrong-result"), std::string(c.name) + ": value at node " + std::to_string(i) + " is " + std::to_string(v) + ", ordinate " + std::to_string(y[i - c.s])); break; }
    }
    for (auto &b : bs) {
      T at = b.node == Node::FIRST ? gx[c.s] : gx[c.e - 1];
      T dv = b.derivative == 1 ? deriv_at<order, 1>(s, at) : b.derivative == 2 ? deriv_at<order, 2>(s, at) : deriv_at<order, 3>(s, at);
      if (!(std::abs(dv - b.value) <= tol * 100)) x.fail(P(prop, "wrong-result"), std::string(c.name) + ": derivative " + std::to_string(b.derivative) + " at the " + (b.node == Node::FIRST ? "first" : "last") + " node is " + std::to_string(dv) + ", requested " + std::to_string(b.value));
    }
  }
  void call(size_t i, Ctx &x) {
    const Call &c = M[i];
    if (c.order == 2) run<2>(c, x);
    else if (c.order == 3) run<3>(c, x);
    else run<4>(c, x);
  }
};
#endif

// ---------------------------------------------------------------------------
struct ChildOut {
  bool crashed = false;
  std::string how;
  std::vector<std::pair<std::string, std::string>> viol;
  std::vector<std::string> results;
};

template <class D>
static ChildOut run_child(const std::vector<size_t> &seq) {
  ChildOut out;
  int fd[2];
  if (pipe(fd) != 0) { perror("pipe"); exit(3); }
  fflush(stdout); fflush(stderr);
  pid_t pid = fork();
  if (pid < 0) { perror("fork"); exit(3); }
  if (pid == 0) {
    close(fd[0]);
    g_crash_path[0] = 0;  // the parent reports; a sanitizer report still aborts this child
    for (int s : {SIGSEGV, SIGABRT, SIGFPE, SIGBUS, SIGILL}) signal(s, SIG_DFL);
    alarm(120);
    std::string buf;
    Ctx x;
    try {
      D dom;
      for (size_t k = 0; k < seq.size(); k++) {
        size_t before = x.viol.size(), rbefore = x.results.size();
        try {
          dom.call(seq[k], x);
        } catch (const BSplineException &e) {
          x.fail(P(D::prop, "threw"), "call #" + std::to_string(k + 1) + " (" + dom.name(seq[k]) + ") threw BSplineException(code " + std::to_string((int)e.getErrorCode()) + ")");
          x.results.push_back("threw");
        } catch (const std::exception &e) {
          x.fail(P(D::prop, "threw"), "call #" + std::to_string(k + 1) + " (" + dom.name(seq[k]) + ") threw " + e.what());
          x.results.push_back("threw");
        }
        {  // exactly one result string per call
          std::string joined;
          for (size_t r = rbefore; r < x.results.size(); r++) joined += (r > rbefore ? " ; " : "") + x.results[r];
          x.results.resize(rbefore);
          x.results.push_back(joined);
        }
        for (size_t v = before; v < x.viol.size(); v++) x.viol[v].second = "after call #" + std::to_string(k + 1) + ": " + x.viol[v].second;
        for (auto &rc : x.recheck) {
          std::string m = rc();
          if (!m.empty()) { x.fail("seq:C14:earlier-result-changed", "after call #" + std::to_string(k + 1) + " (" + dom.name(seq[k]) + "): " + m); }
        }
        if (x.viol.size() > 6) break;
      }
    } catch (const std::exception &e) {
      x.fail(P(D::prop, "threw"), std::string("constructing the persistent objects threw ") + e.what());
    }
    if (g_poison_reads) x.fail("uninit", "read of a default-constructed scalar");
    if (g_div_zero) x.fail("divzero", "division by zero inside the code under test");
    for (auto &r : x.results) { buf += "R\t"; for (char ch : r) buf += (ch == '\n' || ch == '\t') ? ' ' : ch; buf += "\n"; }
    for (auto &v : x.viol) { buf += "V\t" + v.first + "\t"; for (char ch : v.second) buf += (ch == '\n' || ch == '\t') ? ' ' : ch; buf += "\n"; }
    size_t off = 0;
    while (off < buf.size()) { ssize_t w = write(fd[1], buf.data() + off, buf.size() - off); if (w <= 0) break; off += (size_t)w; }
    close(fd[1]);
    _exit(0);
  }
  close(fd[1]);
  std::string in;
  char tmp[65536];
  ssize_t r;
  while ((r = read(fd[0], tmp, sizeof tmp)) > 0) in.append(tmp, (size_t)r);
  close(fd[0]);
  int st = 0;
  waitpid(pid, &st, 0);
  if (WIFSIGNALED(st)) {
    out.crashed = true;
    int sg = WTERMSIG(st);
    out.how = sg == SIGSEGV ? "SIGSEGV" : sg == SIGABRT ? "SIGABRT" : sg == SIGFPE ? "SIGFPE" : sg == SIGBUS ? "SIGBUS" : sg == SIGALRM ? "SIGALRM" : "signal " + std::to_string(sg);
  } else if (WEXITSTATUS(st) != 0) {
    out.crashed = true;
    out.how = "exit status " + std::to_string(WEXITSTATUS(st));
  }
  size_t p = 0;
  while (p < in.size()) {
    size_t e = in.find('\n', p);
    if (e == std::string::npos) e = in.size();
    std::string line = in.substr(p, e - p);
    p = e + 1;
    if (line.rfind("R\t", 0) == 0) out.results.push_back(line.substr(2));
    else if (line.rfind("V\t", 0) == 0) {
      size_t t = line.find('\t', 2);
      out.viol.push_back({line.substr(2, t - 2), t == std::string::npos ? "" : line.substr(t + 1)});
    }
  }
  return out;
}

template <class D>
static void explore(Harness &H, const char *dname, size_t depth) {
  // menu size and names: obtained from a child as well, so that this process never runs library code
  size_t m;
  std::vector<std::string> names;
  {
    int fd[2];
    if (pipe(fd) != 0) exit(3);
    pid_t pid = fork();
    if (pid == 0) {
      D dom;
      std::string b;
      for (size_t i = 0; i < dom.n(); i++) b += dom.name(i) + "\n";
      (void)!write(fd[1], b.data(), b.size());
      _exit(0);
    }
    close(fd[1]);
    std::string in;
    char tmp[4096];
    ssize_t r;
    while ((r = read(fd[0], tmp, sizeof tmp)) > 0) in.append(tmp, (size_t)r);
    close(fd[0]);
    int st;
    waitpid(pid, &st, 0);
    size_t p = 0;
    while (p < in.size()) { size_t e = in.find('\n', p); names.push_back(in.substr(p, e - p)); p = e + 1; }
    m = names.size();
    if (m == 0) { fprintf(stderr, "callseq: domain %s has no menu (setup crashed?)\n", dname); exit(3); }
  }
  // baselines: every call alone in a pristine process (executed by every shard; not counted as cases)
  std::vector<std::string> base(m);
  if (D::pure)
    for (size_t i = 0; i < m; i++) {
      ChildOut o = run_child<D>({i});
      base[i] = o.crashed ? "crashed" : (o.results.empty() ? "" : o.results[0]);
    }
  H.count("menu_size:" + std::string(dname), H.shard == 0 ? (long)m : 0);
  for (size_t L = 1; L <= depth; L++) {
    std::vector<size_t> seq(L, 0);
    while (true) {
      if (H.take()) {
        std::string d = std::string("dom=") + dname + ";seq=";
        for (size_t k = 0; k < L; k++) d += (k ? " | " : "") + names[seq[k]];
        H.begin(d);
        ChildOut o = run_child<D>(seq);
        if (o.crashed) H.fail("crash:" + o.how, "the process executing this call sequence died (" + o.how + ")");
        for (auto &v : o.viol) H.fail(v.first, v.second);
        if (D::pure && !o.crashed)
          for (size_t k = 0; k < L && k < o.results.size(); k++)
            if (o.results[k] != base[seq[k]]) {
              H.fail("seq:C14:disturbed-by-earlier-call", "call #" + std::to_string(k + 1) + " (" + names[seq[k]] + ") returned " + o.results[k].substr(0, 300) + " but the same call alone in a fresh process returns " + base[seq[k]].substr(0, 300));
              break;
            }
        H.count("calls_executed", (long)L);
        H.cls(std::string("len") + std::to_string(L));
        bool distinct = true;
        for (size_t k = 0; k < L; k++) for (size_t j = 0; j < k; j++) if (seq[k] == seq[j]) distinct = false;
        if (L > 1 && !distinct) H.cls("repeated-call");
        if (L > 1) H.nontriv();
        H.end();
      }
      size_t k = L;
      while (k > 0) { if (++seq[k - 1] < m) break; seq[k - 1] = 0; k--; }
      if (k == 0) break;
    }
  }
}

int main(int argc, char **argv) {
  Harness H("SEQ", argc, argv);
  std::string dom = H.args.count("domain") ? H.args["domain"] : "bf";
  size_t depth = H.args.count("depth") ? (size_t)atol(H.args["depth"].c_str()) : 3;
  if (H.thorough() && H.args.count("depth-thorough")) depth = (size_t)atol(H.args["depth-thorough"].c_str());
  if (dom == "bf") explore<DomBF>(H, "bf", depth);
  else if (dom == "lf") explore<DomLF>(H, "lf", depth);
  else if (dom == "op") explore<DomOp>(H, "op", depth);
  else if (dom == "prim") explore<DomPrim>(H, "prim", depth);
  else if (dom == "gen") explore<DomGen>(H, "gen", depth);
  else if (dom == "eval") explore<DomEval>(H, "eval", depth);
  else if (dom == "mix") explore<DomMix>(H, "mix", depth);
  else if (dom == "grid") explore<DomGrid>(H, "grid", depth);
  else if (dom == "gridd") explore<DomGridD>(H, "gridd", depth);
#ifdef VF_QUAD
  else if (dom == "quad") explore<DomQuad>(H, "quad", depth);
#endif
#ifdef VF_INTERP
  else if (dom == "interp") explore<DomInterp>(H, "interp", depth);
#endif
  else { fprintf(stderr, "unknown domain %s\n", dom.c_str()); return 3; }
  return H.finish();
}
