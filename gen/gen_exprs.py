#!/usr/bin/env python3
"""E2 program enumerator: generates ALL operator-expression trees with at most k operator nodes over

    leaf  ::= I | X<1> | X<2> | Dx<1> | Dx<2> | V             (V = SplineOperator, factor chosen at run time)
    unary ::= -A | c*A | A*c | A/c | A+c | c+A | A-c | c-A      (c of the scalar type T, of type int or of type size_t)
    bin   ::= A*B | A+B | A-B

and emits, from the same Python object, the C++ expression (built from temporaries, as every use in the
repository is) and the reference AST for ref_apply, so the two cannot drift.

usage: gen_exprs.py <outdir> <mode> <ntus>     mode: k1 | k2 | red3 | uu | fixed
"""
import sys, os, itertools, hashlib

LEAVES = ['I', 'X1', 'X2', 'D1', 'D2', 'V']
UN = ['neg'] + [f + ty for f in ['cmul', 'mulc', 'divc', 'addc', 'cadd', 'subc', 'csub'] for ty in 'Tiu']
BIN = ['prod', 'sum', 'diff']
TS = [(2, 1), (1, 3), (-5, 7), (3, 2)]
IS = [2, -1, 3, -2]
US = [3, 2, 5, 7]   # scalars of an unsigned type (size_t)


def trees(k, leaves=LEAVES, un=UN, bins=BIN, memo=None):
    memo = {} if memo is None else memo
    if k in memo:
        return memo[k]
    if k == 0:
        r = [(l,) for l in leaves]
    else:
        r = [(u, t) for u in un for t in trees(k - 1, leaves, un, bins, memo)]
        for i in range(k):
            for b in bins:
                for l in trees(i, leaves, un, bins, memo):
                    for rr in trees(k - 1 - i, leaves, un, bins, memo):
                        r.append((b, l, rr))
    memo[k] = r
    return r


class Em:
    """emits C++ and AST text; scalar positions are numbered in traversal order so that every position gets its own value"""
    def __init__(self, override=None):
        self.k = 0
        self.override = override or {}

    def scal(self, ty):
        i = self.k
        self.k += 1
        if i in self.override:
            n, d = self.override[i]
            if ty == 'T':
                return 'C.t(%d, %d)' % (n, d), 'mq(%d, %d)' % (n, d), '%d/%d' % (n, d) if d != 1 else str(n)
            if ty == 'u':
                return 'static_cast<size_t>(%d)' % n, 'mq(%d)' % n, '%du' % n
            return ('(%d)' % n) if n < 0 else str(n), 'mq(%d)' % n, '%di' % n
        if ty == 'T':
            n, d = TS[i % len(TS)]
            return 'C.t(%d, %d)' % (n, d), 'mq(%d, %d)' % (n, d), '%d/%d' % (n, d) if d != 1 else str(n)
        if ty == 'u':
            v = US[i % len(US)]
            return 'static_cast<size_t>(%d)' % v, 'mq(%d)' % v, '%du' % v
        v = IS[i % len(IS)]
        return ('(%d)' % v) if v < 0 else str(v), 'mq(%d)' % v, '%di' % v

    def go(self, t):
        h = t[0]
        if h == 'I': return 'IdentityOperator{}', 'aI()', 'I'
        if h == 'X1': return 'X<1>{}', 'aX(1)', 'X1'
        if h == 'X2': return 'X<2>{}', 'aX(2)', 'X2'
        if h == 'D1': return 'Dx<1>{}', 'aD(1)', 'D1'
        if h == 'D2': return 'Dx<2>{}', 'aD(2)', 'D2'
        if h == 'V': return 'SplineOperator{v}', 'aV(&C.rv)', 'V'
        if h == 'neg':
            c, a, d = self.go(t[1])
            return '(-%s)' % c, 'aNeg(%s)' % a, '-(%s)' % d
        if h in BIN:
            c1, a1, d1 = self.go(t[1])
            c2, a2, d2 = self.go(t[2])
            op = {'prod': '*', 'sum': '+', 'diff': '-'}[h]
            fn = {'prod': 'aProd', 'sum': 'aSum', 'diff': 'aDiff'}[h]
            return '(%s %s %s)' % (c1, op, c2), '%s(%s, %s)' % (fn, a1, a2), '(%s%s%s)' % (d1, op, d2)
        f, ty = h[:-1], h[-1]
        sc, sa, sd = self.scal(ty)
        c, a, d = self.go(t[1])
        if f == 'cmul': return '(%s * %s)' % (sc, c), 'aScale(%s, %s)' % (sa, a), '(%s*%s)' % (sd, d)
        if f == 'mulc': return '(%s * %s)' % (c, sc), 'aScale(%s, %s)' % (sa, a), '(%s*%s)' % (d, sd)
        if f == 'divc': return '(%s / %s)' % (c, sc), 'aDiv(%s, %s)' % (a, sa), '(%s/%s)' % (d, sd)
        if f == 'addc': return '(%s + %s)' % (c, sc), 'aSum(%s, aConst(%s))' % (a, sa), '(%s+%s)' % (d, sd)
        if f == 'cadd': return '(%s + %s)' % (sc, c), 'aSum(aConst(%s), %s)' % (sa, a), '(%s+%s)' % (sd, d)
        if f == 'subc': return '(%s - %s)' % (c, sc), 'aDiff(%s, aConst(%s))' % (a, sa), '(%s-%s)' % (d, sd)
        if f == 'csub': return '(%s - %s)' % (sc, c), 'aDiff(aConst(%s), %s)' % (sa, a), '(%s-%s)' % (sd, d)
        raise ValueError(h)


def has_v(t):
    if t[0] == '@':
        return has_v(t[1])
    return t[0] == 'V' or any(has_v(x) for x in t[1:] if isinstance(x, tuple))


FIXED = [
    # commutator [d/dx, x] = 1
    ('diff', ('prod', ('D1',), ('X1',)), ('prod', ('X1',), ('D1',))),
    # harmonic oscillator example: (1/2) * (-Dx<2> + X<2>)
    ('cmulT', ('sum', ('neg', ('D2',)), ('X2',))),
    # hydrogen example (L = 1): -X<2>*Dx<2> - 2*X<1>*Dx<1> + L*(L+1) - 2*X<1>
    ('diff', ('addci', ('diff', ('prod', ('neg', ('X2',)), ('D2',)), ('prod', ('cmuli', ('X1',)), ('D1',)))), ('cmuli', ('X1',))),
    # spline-potential example: (-1/2) * Dx<2> + V
    ('sum', ('cmulT', ('D2',)), ('V',)),
    # diffusion example: (-1/2) * (V * Dx<1>)
    ('cmulT', ('prod', ('V',), ('D1',))),
    # deeper nests
    ('divcT', ('diff', ('prod', ('X1',), ('addci', ('D1',))), ('cmuli', ('prod', ('V',), ('X1',))))),
    ('prod', ('sum', ('X1',), ('V',)), ('prod', ('subcT', ('D1',)), ('csubi', ('X2',)))),
    ('neg', ('divci', ('prod', ('prod', ('D1',), ('V',)), ('caddT', ('D1',))))),
    ('prod', ('V',), ('prod', ('V',), ('D1',))),
    ('diff', ('prod', ('D2',), ('X2',)), ('prod', ('X2',), ('D2',))),
]


# special scalar values (fast paths are keyed on them): every one-scalar tree is generated once per value
SPECIAL = {'T': [(2, 1), (1, 1), (0, 1), (-1, 1), (1, 3)], 'i': [(2, 1), (1, 1), (0, 1), (-1, 1)], 'u': [(3, 1), (1, 1), (0, 1)]}


def k1_variants():
    out = []
    for t in trees(0) + trees(1):
        h = t[0]
        if h in LEAVES or h == 'neg' or h in BIN:
            out.append(t)
            continue
        f, ty = h[:-1], h[-1]
        for v in SPECIAL[ty]:
            if f == 'divc' and v[0] == 0:
                continue
            out.append(('@', t, {0: v}))
    return out


def select(mode):
    if mode == 'k1':
        return k1_variants()
    if mode == 'k2':
        return trees(2)
    if mode == 'red3':
        un = ['neg', 'cmuli', 'divci', 'divcT', 'subcT', 'csubi', 'subcu']
        return trees(3, ['X1', 'D1', 'V'], un, BIN)
    if mode == 'k2v':
        return [t for t in trees(2) if has_v(t)]   # two-node trees with a spline-valued factor (where memory errors are plausible)
    if mode == 'uu':
        # every scalar/unary node applied to every scalar/unary node (22 x 22) over three leaves: the two-node
        # trees in which one scalar operation wraps another one directly
        return [(u1, (u2, (l,))) for u1 in UN for u2 in UN for l in ['X1', 'D1', 'V']]
    if mode == 'fixed':
        return FIXED
    raise ValueError(mode)


def main():
    outdir, mode, ntus = sys.argv[1], sys.argv[2], int(sys.argv[3])
    ts = select(mode)
    os.makedirs(outdir, exist_ok=True)
    per = (len(ts) + ntus - 1) // ntus
    for tu in range(ntus):
        chunk = ts[tu * per:(tu + 1) * per]
        lines = ['// generated by gen/gen_exprs.py mode=%s tu=%d/%d: %d trees' % (mode, tu, ntus, len(chunk)), '#include "c05_runtime.h"']
        for i, t in enumerate(chunk):
            ov = None
            if t[0] == '@':
                t, ov = t[1], t[2]
            e = Em(ov)
            c, a, d = e.go(t)
            lines.append('static void t%d(Ctx &C) { run_tree(C, "%s", %s, [&](const VS &v) { return %s; }, [&]() { return %s; }); }' % (i, d, 'true' if has_v(t) else 'false', c, a))
        lines.append('void run_all(Ctx &C) {')
        for i in range(len(chunk)):
            lines.append('  t%d(C);' % i)
        lines.append('}')
        lines.append('const char *tu_name = "%s-%d";' % (mode, tu))
        lines.append('const long tu_trees = %d;' % len(chunk))
        txt = '\n'.join(lines) + '\n'
        p = os.path.join(outdir, '%s_%03d.cpp' % (mode, tu))
        if not os.path.exists(p) or open(p).read() != txt:
            open(p, 'w').write(txt)
    print(len(ts))


if __name__ == '__main__':
    main()
