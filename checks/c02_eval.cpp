// C02: evaluation returns the value of the stored piecewise polynomial.
#include "lib.h"
using namespace vf;
using S = vf::DefaultScalar;

static std::vector<mpq_class> probe_points(const std::vector<mpq_class> &g, Win w) {
  std::vector<mpq_class> p;
  for (size_t i = 0; i + 1 < g.size(); i++) {
    mpq_class h = g[i + 1] - g[i];
    p.push_back(g[i]);
    p.push_back(g[i] + h / 4);
    p.push_back(g[i] + h / 2);
    p.push_back(g[i] + 3 * h / 4);
    p.push_back(g[i] + h * mq(1, 1000));
    p.push_back(g[i + 1] - h * mq(1, 1000));
  }
  p.push_back(g.back());
  for (auto d : {mq(1, 1000), mq(1)}) {
    p.push_back(g.front() - d);
    p.push_back(g.back() + d);
    if (!w.empty()) {
      p.push_back(g[w.s] - d);
      p.push_back(g[w.e - 1] + d);
    }
  }
  p.push_back(mq(1000000));
  p.push_back(mq(-1000000));
  return p;
}

template <size_t o>
static void one(Harness &H, const std::string &d0, const Grid<S> &g, const std::vector<mpq_class> &pts, Win w) {
  size_t K = w.nint() * (o + 1);
  for (size_t p = 0; p < npatterns(K); p++) {
    if (!H.take()) continue;
    H.begin(d0 + ";o" + std::to_string(o) + ";" + wstr(w) + ";" + pname(K, p));
    auto flat = pattern(K, p);
    Spline<S, o> s = mkspline<S, o>(g, w, flat);
    if (pattern_nonzero(K, p)) H.nontriv();
    H.cls(std::string("win:") + w.kind() + (w.s > 0 || w.e < pts.size() ? ":sub" : ":whole"));
    // front / back
    {
      mpq_class f, b;
      Outcome of = attempt([&] { f = val(s.front()); });
      Outcome ob = attempt([&] { b = val(s.back()); });
      if (w.empty()) {
        if (of.o != Out::BSPLINE_EXC || ob.o != Out::BSPLINE_EXC) H.fail("frontback", "front/back of an empty spline: " + of.str() + " / " + ob.str());
      } else if (w.size() == 1) {
        // point-like: a throw or the single point are both compatible with the statement
        if (of.o == Out::OTHER_EXC || (!of.threw() && f != pts[w.s])) H.fail("frontback", "front() of point-like spline: " + of.str());
        if (ob.o == Out::OTHER_EXC || (!ob.threw() && b != pts[w.s])) H.fail("frontback", "back() of point-like spline: " + ob.str());
      } else {
        if (of.threw() || f != pts[w.s]) H.fail("front", "front() = " + f.get_str() + " expected " + pts[w.s].get_str() + " " + of.str());
        if (ob.threw() || b != pts[w.e - 1]) H.fail("back", "back() = " + b.get_str() + " expected " + pts[w.e - 1].get_str() + " " + ob.str());
      }
    }
    for (const auto &x : probe_points(pts, w)) {
      mpq_class y;
      Outcome oe = attempt([&] { y = val(s(mk<S>(x))); });
      H.count("point_evaluations");
      if (oe.threw()) { H.fail("eval-throw", "s(" + x.get_str() + ") threw " + oe.str()); continue; }
      // expected values
      std::vector<mpq_class> ok;
      bool inside = w.nint() > 0 && x >= pts[w.s] && x <= pts[w.e - 1];
      if (!inside) {
        ok.push_back(0);
        H.cls(w.nint() == 0 ? "x:interval-free" : (x < pts[w.s] ? "x:left-outside" : "x:right-outside"));
      } else {
        for (size_t i = 0; i < w.nint(); i++) {
          const mpq_class &lo = pts[w.s + i], &hi = pts[w.s + i + 1];
          if (x < lo || x > hi) continue;
          mpq_class xm = (lo + hi) / 2, r = 0, pw = 1;
          for (size_t k = 0; k <= o; k++) { r += flat[i * (o + 1) + k] * pw; pw *= (x - xm); }
          ok.push_back(r);
        }
        H.cls(ok.size() == 2 ? "x:shared-gridpoint" : (x == pts[w.s] ? "x:front" : x == pts[w.e - 1] ? "x:back" : "x:interior"));
      }
      bool good = false;
      for (auto &e : ok) good = good || e == y;
      if (!good) H.fail(inside ? "eval-inside" : "eval-outside", "s(" + x.get_str() + ") = " + y.get_str() + ", expected " + vstr(ok) + " for " + dump(s));
    }
    H.end();
  }
}

// large supports: searches that switch strategy with the size of the support (linear scan below a threshold,
// bisection above) have to be exercised on both sides of any plausible threshold
template <size_t o>
static void large(Harness &H, size_t n) {
  auto pts = grid_family("uni", n);
  for (size_t i = 0; i < n; i++) pts[i] = pts[i] * pts[i] / mpq_class((long)n) + pts[i] / 3;  // strictly increasing, non-uniform
  Grid<S> g = mkgrid<S>(pts);
  std::string d0 = "large" + std::to_string(n);
  for (Win w : {Win{0, n}, Win{1, n}, Win{0, n - 1}, Win{3, n - 2}, Win{n / 2, n}}) {
    size_t K = w.nint() * (o + 1);
    for (size_t p : {K + 1, K + 2}) {
      if (!H.take()) continue;
      H.begin(d0 + ";o" + std::to_string(o) + ";" + wstr(w) + ";" + pname(K, p));
      auto flat = pattern(K, p);
      Spline<S, o> s = mkspline<S, o>(g, w, flat);
      H.nontriv();
      H.cls("win:large");
      for (size_t i = 0; i + 1 < n; i++)
        for (int q = 0; q <= 4; q++) {
          mpq_class x = pts[i] + (pts[i + 1] - pts[i]) * mq(q, 4);
          mpq_class y = val(s(mk<S>(x)));
          H.count("point_evaluations");
          std::vector<mpq_class> ok;
          bool inside = x >= pts[w.s] && x <= pts[w.e - 1];
          if (!inside) ok.push_back(0);
          else
            for (size_t j = 0; j < w.nint(); j++) {
              const mpq_class &lo = pts[w.s + j], &hi = pts[w.s + j + 1];
              if (x < lo || x > hi) continue;
              mpq_class xm = (lo + hi) / 2, r = 0, pw = 1;
              for (size_t k = 0; k <= o; k++) { r += flat[j * (o + 1) + k] * pw; pw *= (x - xm); }
              ok.push_back(r);
            }
          bool good = false;
          for (auto &e : ok) good = good || e == y;
          if (!good) { H.fail(inside ? "eval-inside" : "eval-outside", "s(" + x.get_str() + ") = " + y.get_str() + ", expected " + vstr(ok) + " (support of " + std::to_string(w.size()) + " grid points)"); i = n; break; }
        }
      H.end();
    }
  }
}

// evaluation after an in-place replacement of the data: "every spline" includes one whose window and coefficients
// were just replaced by the converting assignment, a same-order assignment or an in-place update, after it had
// been evaluated; the first abscissa afterwards lies in the interval evaluated before
static void replaced_cases(Harness &H) {
  size_t n = 5;
  auto pts = grid_family("nonuni", n);
  Grid<S> g = mkgrid<S>(pts);
  for (Win a : windows(n))
    for (Win b : windows(n)) {
      if (!a.nint() || !b.nint()) continue;
      for (size_t j = std::max(a.s, b.s); j + 1 < std::min(a.e, b.e); j++)   // common interval j
        for (int how = 0; how < 3; how++) {
          if (!H.take()) continue;
          static const char *hn[] = {"converting-assignment", "same-order-assignment", "in-place-sum"};
          H.begin(std::string("nonuni5;replaced;") + hn[how] + ";" + wstr(a) + ";" + wstr(b) + ";interval" + std::to_string(j));
          auto s = mkspline_p<S, 2>(g, a, a.nint() * 3 + 1);
          mpq_class x0 = (pts[j] + 2 * pts[j + 1]) / 3;
          (void)s(mk<S>(x0));
          RefPP ex;
          if (how == 0) { auto lo = mkspline_p<S, 1>(g, b, b.nint() * 2 + 2); s = lo; ex = alpha(lo); }
          else if (how == 1) { auto o2 = mkspline_p<S, 2>(g, b, b.nint() * 3 + 2); s = o2; ex = alpha(o2); }
          else { auto o2 = mkspline_p<S, 2>(g, b, b.nint() * 3 + 2); RefPP before = alpha(s); s += o2; ex = radd(before, alpha(o2)); }
          std::vector<mpq_class> xs = {x0, (pts[j] + pts[j + 1]) / 2};
          for (size_t i = 0; i + 1 < n; i++) { xs.push_back((pts[i] + pts[i + 1]) / 2); xs.push_back((3 * pts[i] + pts[i + 1]) / 4); }
          for (auto &x : xs) {
            size_t iv = 0;
            while (iv + 2 < n && x > pts[iv + 1]) iv++;
            mpq_class want = peval(ex.get(iv), x), got = val(s(mk<S>(x)));
            H.count("point_evaluations");
            if (got != want) { H.fail("eval-after-replacement", std::string("after ") + hn[how] + " the spline evaluates to " + got.get_str() + " at x = " + x.get_str() + ", the stored polynomial gives " + want.get_str()); break; }
          }
          H.cls("replaced");
          H.nontriv();
          H.end();
        }
      // ... and one whose data was MOVED away: the target evaluates as the source did, the moved-from spline is
      // interval-free, i.e. evaluates to zero everywhere and front()/back() throw the library's exception
      for (int how = 0; how < 2; how++) {
        if (!H.take()) continue;
        H.begin(std::string("nonuni5;moved;") + (how ? "move-construction" : "move-assignment") + ";" + wstr(a) + ";" + wstr(b));
        auto src = mkspline_p<S, 2>(g, a, a.nint() * 3 + 1);
        RefPP ex = alpha(src);
        auto dst = mkspline_p<S, 2>(g, b, b.nint() * 3 + 2);
        (void)dst(mk<S>((pts[b.s] + pts[b.s + 1]) / 2));
        Outcome oc = attempt([&] {
          if (how == 0) dst = std::move(src);
          else { Spline<S, 2> t(std::move(src)); dst = t; }
          for (size_t i = 0; i + 1 < n; i++) {
            mpq_class x = (pts[i] + 3 * pts[i + 1]) / 4;
            H.count("point_evaluations", 2);
            if (val(dst(mk<S>(x))) != peval(ex.get(i), x)) { H.fail("eval-after-replacement", "after the move the target evaluates to something else than the source did at x = " + x.get_str()); break; }
            if (val(src(mk<S>(x))) != 0) { H.fail("eval-moved-from", "the moved-from spline evaluates to " + val(src(mk<S>(x))).get_str() + " at x = " + x.get_str() + " (it must be interval-free)"); break; }
          }
        });
        if (oc.threw()) H.fail("eval-throw", "evaluation around a move threw " + oc.str());
        Outcome of = attempt([&] { (void)src.front(); }), ob = attempt([&] { (void)src.back(); });
        if (of.o != Out::BSPLINE_EXC || ob.o != Out::BSPLINE_EXC) H.fail("frontback", "front()/back() of a moved-from (interval-free) spline: " + of.str() + " / " + ob.str());
        H.cls("moved");
        H.nontriv();
        H.end();
      }
    }
}

// high orders (products of the order-10 example bases have order 20; evaluation kernels that switch strategy with the
// number of coefficients, e.g. split even/odd Horner chains for long arrays, are only visible here): both parities
template <size_t... O>
static void high_orders(Harness &H, std::index_sequence<O...>) {
  auto pts = grid_family("nonuni", 4);
  Grid<S> g = mkgrid<S>(pts);
  for (Win w : {Win{0, 4}, Win{1, 3}}) (one<O>(H, "high:nonuni4", g, pts, w), ...);
}

static void run(Harness &H) {
  replaced_cases(H);
  high_orders(H, std::index_sequence<5, 8, 11, 12, 13, 16, 20, 21>{});
  for (size_t n : {17, 32, 33, 34, 35, 64, 65, 66, 100, 129}) {
    if (!H.thorough() && n > 66) continue;
    large<0>(H, n);
    large<1>(H, n);
  }
  const size_t NMAX = H.thorough() ? 7 : 5, OMAX = H.thorough() ? 4 : 3;
  for (std::string fam : {"uni", "nonuni", "far", "neg"})
    for (size_t n = 2; n <= NMAX; n++) {
      auto pts = grid_family(fam, n);
      Grid<S> g = mkgrid<S>(pts);
      std::string d0 = fam + std::to_string(n);
      for (Win w : windows(n))
        for (size_t o = 0; o <= OMAX; o++)
          with_order<4>(o, [&](auto O) { one<decltype(O)::value>(H, d0, g, pts, w); });
    }
}

int main(int argc, char **argv) {
  Harness H("C02", argc, argv);
  run(H);
  return H.finish();
}
