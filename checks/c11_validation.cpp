// C11: malformed input is rejected at the boundary with the library's
// exception; valid input is never refused. accepted <=> valid, with validity
// written independently here.
#include <bspline/interpolation/interpolation.h>

#include <cmath>
#include <limits>

#include "lib.h"
using namespace vf;

template <class T>
static std::string seqstr(const std::vector<T> &v) {
  std::string r = "[";
  for (size_t i = 0; i < v.size(); i++) {
    if (i) r += ",";
    if constexpr (std::is_same_v<T, double>) {
      double d = v[i];
      if (std::isnan(d)) r += "nan";
      else if (std::isinf(d)) r += d > 0 ? "+inf" : "-inf";
      else if (d == 0 && std::signbit(d)) r += "-0.0";
      else if (d > 1.0 && d < 1.5) r += "1+ulp";
      else if (d > 0 && d < 1e-300) r += "denorm";
      else r += std::to_string((int)d);
    } else {
      r += val(v[i]).get_str();
    }
  }
  return r + "]";
}

// refusal must be the library's exception; acceptance must be a value
static void judge(Harness &H, const char *what, bool valid, const Outcome &o) {
  if (o.o == Out::OTHER_EXC) { H.fail(std::string(what) + ":foreign-exception", std::string(what) + " let a foreign exception escape: " + o.what); return; }
  if (valid && o.threw()) H.fail(std::string(what) + ":valid-refused", std::string(what) + ": valid input refused with " + o.str());
  if (!valid && !o.threw()) H.fail(std::string(what) + ":invalid-accepted", std::string(what) + ": invalid input accepted");
  H.cls(std::string(what) + (valid ? ":valid" : ":invalid"));
}

template <class T>
static Grid<T> grid_via(int ctor, const std::vector<T> &v) {
  switch (ctor) {
    case 0: return Grid<T>(v.begin(), v.end());
    case 1: return Grid<T>(v);
    case 2:
      switch (v.size()) {
        case 0: return Grid<T>(std::initializer_list<T>{});
        case 1: return Grid<T>({v[0]});
        case 2: return Grid<T>({v[0], v[1]});
        case 3: return Grid<T>({v[0], v[1], v[2]});
        case 4: return Grid<T>({v[0], v[1], v[2], v[3]});
        case 5: return Grid<T>({v[0], v[1], v[2], v[3], v[4]});
        default: return Grid<T>({v[0], v[1], v[2], v[3], v[4], v[5]});
      }
    default: return Grid<T>(std::make_shared<const std::vector<T>>(v));
  }
}

template <class T, class F>
static void all_seqs(const std::vector<T> &alpha, size_t maxlen, F f) {
  for (size_t len = 0; len <= maxlen; len++) {
    std::vector<size_t> ix(len, 0);
    while (true) {
      std::vector<T> v;
      for (size_t i : ix) v.push_back(alpha[i]);
      f(v);
      size_t k = 0;
      while (k < len && ++ix[k] == alpha.size()) ix[k++] = 0;
      if (k == len) break;
    }
  }
}

template <class T>
static bool strictly_increasing(const std::vector<T> &v) {
  if (v.size() < 2) return false;
  for (size_t i = 0; i + 1 < v.size(); i++)
    if (!(v[i] < v[i + 1])) return false;
  return true;
}
template <class T>
static bool knots_valid(const std::vector<T> &v) {  // non-decreasing, >= 2 distinct values
  bool distinct = false;
  for (size_t i = 0; i + 1 < v.size(); i++) {
    if (!(v[i] <= v[i + 1])) return false;
    if (v[i] < v[i + 1]) distinct = true;
  }
  for (auto &x : v)
    if (!(x == x)) return false;
  return distinct;
}

template <class T>
static void grid_cases(Harness &H, const char *tn, const std::vector<T> &alpha, size_t maxlen) {
  all_seqs<T>(alpha, maxlen, [&](const std::vector<T> &v) {
    for (int ctor = 0; ctor < 4; ctor++) {
      if (!H.take()) continue;
      H.begin(std::string("grid<") + tn + ">;ctor" + std::to_string(ctor) + ";" + seqstr(v));
      bool valid = strictly_increasing(v);
      std::unique_ptr<Grid<T>> g;  // Grid is not movable: construct in place from the prvalue
      Outcome o = attempt([&] { g.reset(new Grid<T>(grid_via<T>(ctor, v))); });
      judge(H, "Grid", valid, o);
      if (g && valid) {
        if (g->size() != v.size()) H.fail("Grid:size", "size differs");
        else
          for (size_t i = 0; i < v.size(); i++)
            if (!((*g)[i] == v[i])) H.fail("Grid:content", "content differs");
      }
      if (valid) H.nontriv();
      H.end();
    }
  });
  // iterator range over a WIDER type (the grid stores float): what must be strictly increasing are the stored points
  if constexpr (std::is_same_v<T, double>) {
    const double u = std::nextafter(1.0, 2.0);
    const std::vector<double> wide = {-1.0, -0.0, 0.0, 1.0, u, 1.0 + 1e-12, 1.5, 16777216.0, 16777217.0, 16777218.0, 1e300, std::numeric_limits<double>::quiet_NaN()};
    all_seqs<double>(wide, 3, [&](const std::vector<double> &v) {
      if (!H.take()) return;
      H.begin(std::string("grid<float>;from-double-range;") + seqstr(v));
      std::vector<float> stored(v.begin(), v.end());
      bool valid = strictly_increasing(stored);
      std::unique_ptr<Grid<float>> g;
      Outcome o = attempt([&] { g.reset(new Grid<float>(v.begin(), v.end())); });
      judge(H, "Grid", valid, o);
      if (g && valid)
        for (size_t i = 0; i < stored.size(); i++)
          if (!((*g)[i] == stored[i])) H.fail("Grid:content", "content differs");
      H.cls(valid ? "Grid:converting-range:valid" : "Grid:converting-range:invalid");
      if (valid) H.nontriv();
      H.end();
    });
  }
  // null shared pointer
  if (H.take()) {
    H.begin(std::string("grid<") + tn + ">;nullptr");
    Outcome o = attempt([&] { Grid<T> g(std::shared_ptr<const std::vector<T>>{}); });
    judge(H, "Grid", false, o);
    H.end();
  }
}

template <class T>
static void generator_cases(Harness &H, const char *tn, const std::vector<T> &alpha, size_t maxlen) {
  all_seqs<T>(alpha, maxlen, [&](const std::vector<T> &v) {
    for (int gv = 0; gv < 4; gv++) {
      if (!H.take()) continue;
      const char *gn[] = {"nogrid", "matching", "extra-point", "moved-point"};
      H.begin(std::string("generator<") + tn + ">;" + gn[gv] + ";" + seqstr(v));
      bool kv = knots_valid(v);
      // grid to supply
      std::vector<T> gp;
      if (kv) {
        for (auto &x : v)
          if (gp.empty() || gp.back() < x) gp.push_back(x);
      } else {
        gp = {static_cast<T>(0), static_cast<T>(1), static_cast<T>(2)};
      }
      if (gv == 2) gp.push_back(gp.back() + static_cast<T>(1));
      if (gv == 3) gp.back() = gp.back() + static_cast<T>(1);
      bool valid = kv && gv <= 1;
      std::optional<bspline::BSplineGenerator<T>> gen;
      Outcome o = attempt([&] {
        if (gv == 0) gen.emplace(v);
        else gen.emplace(v, Grid<T>(gp));
      });
      judge(H, "Generator", valid, o);
      if (gen) {
        auto tryorder = [&](auto O) {
          constexpr size_t p = decltype(O)::value;
          size_t cnt = 0;
          Outcome og = attempt([&] { cnt = gen->template generateBSplines<p>().size(); });
          bool ok = v.size() >= p + 1;
          judge(H, "generateBSplines", ok, og);
          if (ok && !og.threw() && valid && cnt != v.size() - p - 1) H.fail("generateBSplines:count", "order " + std::to_string(p) + ": " + std::to_string(cnt) + " functions for " + std::to_string(v.size()) + " knots");
        };
        tryorder(std::integral_constant<size_t, 0>{});
        tryorder(std::integral_constant<size_t, 1>{});
        tryorder(std::integral_constant<size_t, 2>{});
        tryorder(std::integral_constant<size_t, 3>{});
        tryorder(std::integral_constant<size_t, 4>{});
        tryorder(std::integral_constant<size_t, 5>{});
      }
      if (valid) H.nontriv();
      H.end();
    }
  });
}

using S = vf::DefaultScalar;

static void support_cases(Harness &H) {
  for (size_t n = 2; n <= 4; n++) {
    auto pts = grid_family("nonuni", n);
    Grid<S> g = mkgrid<S>(pts);
    std::vector<size_t> P;
    for (size_t i = 0; i <= n + 2; i++) P.push_back(i);
    P.push_back(~(size_t)0);
    P.push_back(~(size_t)0 - 1);
    P.push_back((size_t)1 << 63);
    for (size_t s : P)
      for (size_t e : P) {
        if (!H.take()) continue;
        H.begin("support;n=" + std::to_string(n) + ";(" + std::to_string(s) + "," + std::to_string(e) + ")");
        std::optional<Support<S>> sup;
        Outcome o = attempt([&] { sup.emplace(g, s, e); });
        bool valid = (s == 0 && e == 0) || (s < e && e <= n);
        bool either = (s == e && s > 0);  // DESIGN.md 5: neither clearly a window nor clearly invalid
        if (either) {
          if (o.o == Out::OTHER_EXC) H.fail("Support:foreign-exception", o.what);
          if (!o.threw() && !sup->empty()) H.fail("Support:degenerate", "accepted (k,k) but not empty()");
          H.cls("Support:either");
        } else {
          judge(H, "Support", valid, o);
          if (valid) H.nontriv();
        }
        if (sup && (sup->getStartIndex() != s || sup->getEndIndex() != e)) H.fail("Support:indices", "indices changed");
        H.end();
      }
    if (H.take()) {
      H.begin("support;n=" + std::to_string(n) + ";factories");
      Outcome o = attempt([&] {
        auto e = Support<S>::createEmpty(g);
        auto w = Support<S>::createWholeGrid(g);
        if (!e.empty() || w.size() != n) H.fail("Support:factory", "factory result wrong");
      });
      judge(H, "Support", true, o);
      H.end();
    }
  }
}

template <size_t o>
static void spline_cases(Harness &H) {
  for (size_t n = 2; n <= 4; n++) {
    auto pts = grid_family("nonuni", n);
    Grid<S> g = mkgrid<S>(pts);
    for (Win w : windows(n))
      for (size_t cnt = 0; cnt <= n + 1; cnt++) {
        if (!H.take()) continue;
        H.begin("spline;o" + std::to_string(o) + ";n=" + std::to_string(n) + ";" + wstr(w) + ";count=" + std::to_string(cnt));
        std::vector<std::array<S, o + 1>> c(cnt);
        for (auto &a : c)
          for (auto &x : a) x = mki<S>(1);
        Outcome oc = attempt([&] { Spline<S, o> s(Support<S>(g, w.s, w.e), c); if (s.getCoefficients().size() != cnt) H.fail("Spline:count", "coefficient count changed"); });
        bool valid = cnt == w.nint();
        judge(H, "Spline", valid, oc);
        if (valid) H.nontriv();
        H.end();
      }
    if (H.take()) {
      H.begin("spline;o" + std::to_string(o) + ";n=" + std::to_string(n) + ";from-grid");
      Outcome oc = attempt([&] { Spline<S, o> s(g); if (!s.getSupport().empty() || !s.getCoefficients().empty()) H.fail("Spline:empty", "Spline(grid) not empty"); });
      judge(H, "Spline", true, oc);
      H.end();
    }
  }
}

static void lincomb_cases(Harness &H) {
  auto pts = grid_family("nonuni", 4);
  Grid<S> g = mkgrid<S>(pts);
  for (size_t nc = 0; nc <= 3; nc++)
    for (size_t ns = 0; ns <= 3; ns++)
      for (int overload = 0; overload < 2; overload++) {
        if (!H.take()) continue;
        H.begin("linearCombination;nc=" + std::to_string(nc) + ";ns=" + std::to_string(ns) + ";overload" + std::to_string(overload));
        std::vector<S> c(nc, mki<S>(2));
        std::vector<Spline<S, 1>> sp;
        for (size_t i = 0; i < ns; i++) sp.push_back(mkspline_p<S, 1>(g, Win{i, i + 2}, 0));
        Outcome o = attempt([&] {
          if (overload == 0) (void)bspline::linearCombination(c.begin(), c.end(), sp.begin(), sp.end());
          else (void)bspline::linearCombination(c, sp);
        });
        bool valid = nc == ns && nc >= 1;
        judge(H, "linearCombination", valid, o);
        if (valid) H.nontriv();
        H.end();
      }
}

// stub solver: bounds-checked dense storage, solve() returns zeros
static long g_solver_oob = 0;
template <class T>
struct StubSolver final : bspline::interpolation::internal::ISolver<T> {
  size_t n;
  std::vector<T> m, bb, xx;
  T dummy;
  StubSolver(size_t problemsize) : n(problemsize), m(n * n, static_cast<T>(0)), bb(n, static_cast<T>(0)), xx(n, static_cast<T>(0)), dummy(static_cast<T>(0)) {}
  T &M(size_t i, size_t j) override { if (i >= n || j >= n) { g_solver_oob++; return dummy; } return m[i * n + j]; }
  T &b(size_t i) override { if (i >= n) { g_solver_oob++; return dummy; } return bb[i]; }
  void solve() override {}
  T &x(size_t i) override { if (i >= n) { g_solver_oob++; return dummy; } return xx[i]; }
};

template <size_t o>
static void interp_cases(Harness &H) {
  using namespace bspline::interpolation;
  auto pts = grid_family("nonuni", 6);
  Grid<S> g = mkgrid<S>(pts);
  // sizes
  for (size_t nx = 0; nx <= 4; nx++)
    for (size_t ny = 0; ny <= 4; ny++)
      for (size_t start : {(size_t)0, (size_t)1}) {
        if (nx == 0 && start) continue;
        if (!H.take()) continue;
        H.begin("interpolate;o" + std::to_string(o) + ";|x|=" + std::to_string(nx) + ";|y|=" + std::to_string(ny) + ";start=" + std::to_string(start));
        g_solver_oob = 0;
        Support<S> x(g, nx ? start : 0, nx ? start + nx : 0);
        std::vector<S> y(ny, mki<S>(3));
        Outcome oc = attempt([&] {
          auto s = interpolate<S, o, StubSolver<S>>(x, y);
          if (s.getSupport().getStartIndex() != start || s.getSupport().size() != nx) H.fail("interpolate:support", "result has another support");
        });
        bool valid = nx == ny && nx >= 2;
        judge(H, "interpolate:sizes", valid, oc);
        if (g_solver_oob) H.fail("interpolate:solver-index", "solver accessed out of range " + std::to_string(g_solver_oob) + " times");
        if (valid) H.nontriv();
        H.end();
      }
  // boundary arrays: every (node, derivative) at every position
  if constexpr (o >= 2) {
    constexpr size_t NB = o - 1;
    const size_t D = o + 3;  // derivative orders 0..o+2
    size_t total = 1;
    for (size_t i = 0; i < NB; i++) total *= 2 * D;
    for (size_t code = 0; code < total; code++) {
      if (!H.take()) continue;
      std::array<Boundary<S>, NB> b;
      size_t c = code;
      bool valid = true;
      std::string bs;
      for (size_t i = 0; i < NB; i++) {
        size_t d = c % D;
        c /= D;
        Node nd = (c % 2) ? Node::LAST : Node::FIRST;
        c /= 2;
        b[i] = Boundary<S>{nd, d, mki<S>(1)};
        if (d < 1 || d > o) valid = false;
        bs += std::string(nd == Node::FIRST ? "F" : "L") + std::to_string(d);
      }
      H.begin("interpolate;o" + std::to_string(o) + ";boundaries=" + bs);
      g_solver_oob = 0;
      Support<S> x(g, 1, 4);
      std::vector<S> y(3, mki<S>(3));
      Outcome oc = attempt([&] { (void)interpolate<S, o, StubSolver<S>>(x, y, b); });
      judge(H, "interpolate:boundaries", valid, oc);
      if (g_solver_oob) H.fail("interpolate:solver-index", "solver accessed out of range " + std::to_string(g_solver_oob) + " times");
      if (valid) H.nontriv();
      H.end();
    }
  }
}

static void run(Harness &H) {
  const double inf = std::numeric_limits<double>::infinity(), nan = std::numeric_limits<double>::quiet_NaN();
  // neighbours in the floating-point order (1 and 1+ulp, 0 and the smallest denormal) are strictly increasing: a comparison
  // with a tolerance would refuse them
  grid_cases<double>(H, "double", {-inf, -1.0, -0.0, 0.0, 5e-324, 1.0, std::nextafter(1.0, 2.0), 2.0, inf, nan}, H.thorough() ? 5 : 4);
  grid_cases<S>(H, "QP", {mki<S>(0), mki<S>(1), mki<S>(2)}, 5);
  support_cases(H);
  spline_cases<0>(H);
  spline_cases<1>(H);
  spline_cases<2>(H);
  generator_cases<double>(H, "double", {0.0, 1.0, std::nextafter(1.0, 2.0), 2.0, nan}, H.thorough() ? 6 : 5);
  generator_cases<S>(H, "QP", {mki<S>(0), mki<S>(1), mki<S>(2)}, H.thorough() ? 7 : 5);
  lincomb_cases(H);
  interp_cases<1>(H);
  interp_cases<2>(H);
  interp_cases<3>(H);
  interp_cases<4>(H);
}

int main(int argc, char **argv) {
  Harness H("C11", argc, argv);
  run(H);
  return H.finish();
}
