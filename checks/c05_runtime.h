// C05 runtime: applies one generated operator expression to every operand
// spline (and every placement of the spline-valued factor) and compares the
// result with the reference interpreter of the same expression's AST.
#pragma once
#include "lib.h"
using namespace vf;
using namespace bspline::operators;
using S = vf::DefaultScalar;
using VS = Spline<S, 1>;

struct Ctx {
  Harness &H;
  size_t n;
  std::vector<mpq_class> pts;
  Grid<S> g, gcopy;  // gcopy: the same points in a distinct object (used for the second factor variant)
  RefPP rv;  // reference function of the current factor spline
  long trees = 0;
  Ctx(Harness &h, size_t n_, const std::string &fam) : H(h), n(n_), pts(grid_family(fam, n_)), g(mkgrid<S>(pts)), gcopy(mkgrid<S>(pts)) {}
  S t(long num, long den) const { return mk<S>(mq(num, den)); }
};

inline std::vector<Win> c05_factor_windows(size_t n) {
  // whole grid, ending inside, starting inside, point-like, empty, first interval only, last interval only
  return {Win{0, n}, Win{1, 3}, Win{n - 3, n}, Win{2, 3}, Win{0, 0}, Win{0, 2}, Win{n - 2, n}};
}

template <size_t o, class MK>
static void apply_order(Ctx &C, const std::string &d0, const VS &v, MK &mkop, const Ast &ast) {
  Harness &H = C.H;
  for (Win a : windows(C.n)) {
    size_t K = a.nint() * (o + 1);
    for (size_t p = 0; p < npatterns(K); p++) {
      if (K && p == K + 2) continue;  // units, zero, one generic vector: the map is linear
      if (!H.take()) continue;
      H.begin(d0 + ";o" + std::to_string(o) + ";" + wstr(a) + ":" + pname(K, p));
      auto s = mkspline_p<S, o>(C.g, a, p);
      RefPP rs = alpha(s);
      RefPP ex = ref_apply(ast, rs);
      Outcome oc = attempt([&] {
        auto r = mkop(v) * s;
        bool ok = true;
        RefPP got = alpha(r, &ok);
        if (!ok) H.fail("invalid-result", dump(r));
        else if (got != ex) H.fail("apply", "expression applied to " + dump(s) + " gives " + got.str() + ", the denoted differential expression gives " + ex.str() + " (factor " + dump(v) + ")");
      });
      if (oc.threw()) H.fail("threw", oc.str());
      if (alpha(s) != rs) H.fail("operand-changed", "operand changed");
      if (!ex.zero()) H.nontriv();
      H.end();
    }
  }
}

template <class MK, class MA>
static void run_tree(Ctx &C, const char *desc, bool hasV, MK mkop, MA mkast) {
  C.trees++;
  C.H.cls(hasV ? "tree:with-factor" : "tree:no-factor");
  std::vector<Win> FW = hasV ? c05_factor_windows(C.n) : std::vector<Win>{Win{0, 0}};
  for (size_t fi = 0; fi < FW.size(); fi++) {
    Win fw = FW[fi];
    for (int fo = 0; fo < (hasV ? 2 : 1); fo++) {
      // factor of order 1 with generic coefficients, or (second variant) the same window with unit-like coefficients
      VS v = mkspline_p<S, 1>(fo == 0 ? C.g : C.gcopy, fw, fw.nint() ? (fo == 0 ? fw.nint() * 2 + 1 : fw.nint() * 2 + 2) : 0);
      if (fo == 1 && fw.nint() == 0) continue;
      C.rv = alpha(v);
      AstP ast = mkast();
      std::string d0 = std::string(desc) + (hasV ? ";v=" + wstr(fw) + (fo ? ":gen2:on-equal-grid-copy" : ":gen1") : "");
      if (hasV) C.H.cls(std::string("factor:") + fw.kind() + (fw.e < C.n ? ":ends-inside" : "") + (fw.s > 0 ? ":starts-inside" : ""));
      apply_order<0>(C, d0, v, mkop, *ast);
      apply_order<1>(C, d0, v, mkop, *ast);
      apply_order<2>(C, d0, v, mkop, *ast);
    }
  }
}

void run_all(Ctx &C);
extern const char *tu_name;
extern const long tu_trees;

int main(int argc, char **argv) {
  Harness H("C05", argc, argv);
  Ctx C(H, 5, "sym");  // non-uniform, both signs, one interval centred exactly at the origin
  run_all(C);
  H.count("trees", H.shard == 0 || H.only >= 0 ? C.trees : 0);
  return H.finish();
}
