// C20: the shipped example solvers are well-defined programs and solve their
// problems. The real examples/*.cpp are compiled (sanitizers + checked STL +
// Eigen assertions) and driven over enumerated admissible inputs.
#include <algorithm>
#include <cmath>

#include "diffusion.h"
#include "harmonic-oscillator.h"
#include "hydrogen.h"
#include "spline-potential.h"
// engine (exact scalar not needed here, but harness runtime and alphabets are)
#include "lib.h"

using namespace vf;
using bspline::examples::data_t;
using bspline::examples::Eigenspace;
using bspline::examples::diffusion::DSpline;
using bspline::examples::diffusion::solveDiffusionSteadyState;
using bspline::examples::spline_potential::interpolateFunction;
using bspline::examples::spline_potential::solveSEWithSplinePotential;
using PSpline = bspline::examples::PSpline;
using GridD = bspline::support::Grid<data_t>;
using SupD = bspline::support::Support<data_t>;

static const double TOL = 1e-8;

static std::vector<double> grid_points(const std::string &fam, size_t n, double lo, double hi) {
  std::vector<double> r;
  for (size_t i = 0; i < n; i++) {
    double t = (double)i / (double)(n - 1);
    if (fam == "nonuni") t = t * t * (3 - 2 * t) * 0.5 + t * 0.5;  // strictly increasing warp
    r.push_back(lo + (hi - lo) * t);
  }
  return r;
}

// ---------------- diffusion ------------------------------------------------------
static void diffusion_cases(Harness &H) {
  const std::vector<double> DV = {1.0 / 3, 1.0, 2.0};
  const std::vector<std::pair<double, double>> BV = {{0, 10}, {2, -1}, {1, 1}};
  const std::vector<double> LAM = {0.25, 3.0, 1.0 / 3, std::ldexp(1.0, -60), std::ldexp(3.0, 40)};  // "a positive constant": also far from 1
  std::vector<size_t> NS = H.thorough() ? std::vector<size_t>{2, 3, 4, 5, 6, 9, 13} : std::vector<size_t>{2, 3, 4, 6, 9};
  for (std::string fam : {"uni", "nonuni"})
    for (size_t n : NS) {
      auto gp = grid_points(fam, n, -1.5, 2.5);
      // coefficient patterns: exhaustive over DV^(n-1) for small n, patterned above
      std::vector<std::vector<double>> pats;
      size_t ni = n - 1;
      if (n <= (H.thorough() ? 5u : 4u)) {
        size_t tot = 1;
        for (size_t i = 0; i < ni; i++) tot *= DV.size();
        for (size_t c = 0; c < tot; c++) {
          std::vector<double> p;
          size_t cc = c;
          for (size_t i = 0; i < ni; i++) { p.push_back(DV[cc % DV.size()]); cc /= DV.size(); }
          pats.push_back(p);
        }
      } else {
        pats.push_back(std::vector<double>(ni, 1.0));
        pats.push_back(std::vector<double>(ni, 2.0));
        std::vector<double> p1, p2;
        for (size_t i = 0; i < ni; i++) { p1.push_back(DV[i % 3]); p2.push_back(i < ni / 2 ? 1.0 / 3 : 2.0); }
        pats.push_back(p1);
        pats.push_back(p2);
      }
      for (auto &pat : pats)
        for (auto bv : BV) {
          if (!H.take()) continue;
          std::string d = "diffusion;" + fam + std::to_string(n) + ";D=";
          for (double x : pat) d += (x < 0.5 ? "1/3," : x < 1.5 ? "1," : "2,");
          d += ";bv=(" + std::to_string((int)bv.first) + "," + std::to_string((int)bv.second) + ")";
          H.begin(d);
          GridD g(gp);
          auto mk_d = [&](double lam) {
            std::vector<std::array<data_t, 1>> c;
            for (double x : pat) c.push_back({lam * x});
            return DSpline(SupD::createWholeGrid(g), std::move(c));
          };
          double scale = std::max({std::fabs(bv.first), std::fabs(bv.second), 1.0});
          std::vector<double> probes;
          for (int q = 0; q <= 16; q++) probes.push_back(gp.front() + (gp.back() - gp.front()) * q / 16.0);
          std::vector<double> base;
          Outcome oc = attempt([&] {
            auto sol = solveDiffusionSteadyState(mk_d(1.0), bv.first, bv.second);
            for (double x : probes) base.push_back(sol(x));
            if (std::fabs(sol(gp.front()) - bv.first) > TOL * scale) H.fail("diffusion:start-value", "c(front) = " + std::to_string(sol(gp.front())) + " expected " + std::to_string(bv.first));
            if (std::fabs(sol(gp.back()) - bv.second) > TOL * scale) H.fail("diffusion:end-value", "c(back) = " + std::to_string(sol(gp.back())) + " expected " + std::to_string(bv.second));
            bool constant = true;
            for (double x : pat) constant = constant && x == pat[0];
            if (constant) {
              for (size_t i = 0; i < probes.size(); i++) {
                double ex = bv.first + (bv.second - bv.first) * (probes[i] - gp.front()) / (gp.back() - gp.front());
                if (std::fabs(base[i] - ex) > TOL * scale) { H.fail("diffusion:straight-line", "constant coefficient: c(" + std::to_string(probes[i]) + ") = " + std::to_string(base[i]) + " expected " + std::to_string(ex)); break; }
              }
              H.cls("diffusion:constant-D");
            } else {
              H.cls("diffusion:varying-D");
            }
            for (double lam : LAM) {
              auto s2 = solveDiffusionSteadyState(mk_d(lam), bv.first, bv.second);
              for (size_t i = 0; i < probes.size(); i++)
                if (std::fabs(s2(probes[i]) - base[i]) > TOL * scale) { H.fail("diffusion:scaling", "scaling D by " + std::to_string(lam) + " changes c(" + std::to_string(probes[i]) + ") from " + std::to_string(base[i]) + " to " + std::to_string(s2(probes[i]))); break; }
            }
          });
          if (oc.threw()) H.fail("diffusion:threw", "admissible input refused: " + oc.str());
          H.nontriv();
          H.end();
        }
      // coefficient living on a sub-window of a larger grid: refused (library exception) or solved on that window
      if (n >= 4 && H.take()) {
        H.begin("diffusion;" + fam + std::to_string(n) + ";sub-window");
        GridD g(gp);
        std::vector<std::array<data_t, 1>> c(n - 3, {1.0});
        DSpline dsp(SupD(g, 1, n - 1), std::move(c));
        Outcome oc = attempt([&] {
          auto sol = solveDiffusionSteadyState(dsp, 0.0, 10.0);
          if (std::fabs(sol(gp[1]) - 0.0) > TOL * 10 || std::fabs(sol(gp[n - 2]) - 10.0) > TOL * 10) H.fail("diffusion:sub-window", "computed, but the boundary values are not attained");
        });
        if (oc.o == Out::OTHER_EXC) H.fail("diffusion:foreign-exception", oc.what);
        H.cls(oc.threw() ? "diffusion:sub-window:refused" : "diffusion:sub-window:computed");
        H.end();
      }
    }
}

// ---------------- spline potential -------------------------------------------------
static PSpline handbuilt_potential(const GridD &g, size_t s, size_t e, int kind, double shift) {
  std::vector<std::array<data_t, 4>> c;
  for (size_t i = s; i + 1 < e; i++) {
    double xm = (g[i] + g[i + 1]) / 2;
    if (kind == 0) c.push_back({shift, 0, 0, 0});
    else if (kind == 1) c.push_back({xm * xm / 2 + shift, xm, 0.5, 0});  // x^2/2 about xm
    else c.push_back({std::cosh(xm) - 1 + shift, std::sinh(xm), std::cosh(xm) / 2, std::sinh(xm) / 6});  // Taylor cubic of cosh-1
  }
  return PSpline(SupD(g, s, e), std::move(c));
}

static void potential_cases(Harness &H) {
  std::vector<size_t> NS;
  for (size_t n = 11; n <= 22; n++) NS.push_back(n);
  NS.push_back(41);
  if (H.thorough()) { NS.push_back(31); NS.push_back(61); }
  NS.push_back(5);  // too few points for the order-10 basis: must be refused by the library, not crash
  const std::vector<double> SH = {1.0, -2.5};
  for (size_t n : NS)
    for (int kind = 0; kind < 3; kind++)
      for (int route = 0; route < 4; route++) {  // 0: interpolateFunction, 1: hand-built full support, 2/3: hand-built sub-windows
        if (!H.take()) continue;
        static const char *kn[] = {"zero", "x^2/2", "cosh-1"};
        static const char *rn[] = {"interpolated", "handbuilt", "handbuilt-subwindow", "handbuilt-subwindow-right"};
        H.begin("potential;n=" + std::to_string(n) + ";v=" + kn[kind] + ";" + rn[route]);
        auto gp = grid_points(n % 2 ? "uni" : "nonuni", n, -5.0, 5.0);
        auto vfun = [kind](double x) { return kind == 0 ? 0.0 : kind == 1 ? x * x / 2 : std::cosh(x) - 1; };
        auto make = [&](double shift) -> PSpline {
          if (route == 0) return interpolateFunction(gp, [&](data_t x) { return vfun(x) + shift; });
          GridD g(gp);
          if (route == 1) return handbuilt_potential(g, 0, n, kind, shift);
          // a potential supported on a sub-window; "adding the constant c to the potential" adds it on the whole domain:
          // v + c is the sum of the sub-window spline and a whole-grid constant spline
          PSpline sub = route == 2 ? handbuilt_potential(g, 1, n - 1, kind, 0.0) : handbuilt_potential(g, n / 3, n, kind, 0.0);
          if (shift == 0.0) return sub;
          return sub + PSpline(SupD(g, 0, n), std::vector<std::array<data_t, 4>>(n - 1, std::array<data_t, 4>{shift, 0, 0, 0}));
        };
        std::vector<Eigenspace> base;
        Outcome oc = attempt([&] { base = solveSEWithSplinePotential(make(0.0)); });
        if (n < 11) {
          // fewer knots than the order-10 basis needs: a library exception is the defined outcome
          if (oc.o == Out::OTHER_EXC) H.fail("potential:foreign-exception", oc.what);
          if (!oc.threw() && !base.empty()) H.fail("potential:too-few-points", "returned eigenpairs without a basis");
          H.cls("potential:too-few-points");
          H.end();
          continue;
        }
        if (oc.threw()) { H.fail("potential:threw", "admissible input refused: " + oc.str()); H.end(); continue; }
        // the statement fixes neither the number nor the order of the returned eigenpairs: only that there
        // cannot be more than basis functions; for the shift comparison both lists are sorted
        if (base.size() > n - 11) H.fail("potential:count", std::to_string(base.size()) + " eigenpairs returned for a basis of " + std::to_string(n - 11) + " functions");
        auto by_energy = [](const Eigenspace &x, const Eigenspace &y) { return x.energy < y.energy; };
        std::sort(base.begin(), base.end(), by_energy);
        for (double sh : SH) {
          std::vector<Eigenspace> sft;
          Outcome o2 = attempt([&] { sft = solveSEWithSplinePotential(make(sh)); });
          if (o2.threw()) { H.fail("potential:threw", o2.str()); break; }
          if (sft.size() != base.size()) { H.fail("potential:count", "different number of eigenpairs for the shifted potential"); break; }
          std::sort(sft.begin(), sft.end(), by_energy);
          for (size_t i = 0; i < base.size(); i++) {
            double ex = base[i].energy + sh, sc = std::max({1.0, std::fabs(ex), std::fabs(base[i].energy)});
            if (!(std::fabs(sft[i].energy - ex) <= TOL * sc)) { H.fail("potential:shift", "eigenvalue " + std::to_string(i) + " of v+" + std::to_string(sh) + " is " + std::to_string(sft[i].energy) + ", expected " + std::to_string(ex)); break; }
          }
        }
        H.cls(std::string("potential:") + (n - 11 < 10 ? "small-basis" : "full-basis") + ":" + rn[route]);
        if (!base.empty()) H.nontriv();
        H.end();
      }
}

static void fixed_cases(Harness &H) {
  if (H.take()) {
    H.begin("harmonic-oscillator");
    Outcome oc = attempt([&] {
      auto es = bspline::examples::harmonic_oscillator::solveHarmonicOscillator();
      if (es.size() != 10) H.fail("ho:count", "expected 10 eigenpairs");
      for (size_t i = 0; i < es.size(); i++) {
        double an = (2.0 * i + 1) / 2;
        if (!(std::fabs((es[i].energy - an) / an) <= 1.0e-12)) H.fail("ho:energy", "E_" + std::to_string(i) + " = " + std::to_string(es[i].energy) + " expected " + std::to_string(an));
      }
    });
    if (oc.threw()) H.fail("ho:threw", oc.str());
    H.cls("harmonic-oscillator");
    H.nontriv();
    H.end();
  }
  if (H.take()) {
    H.begin("hydrogen");
    Outcome oc = attempt([&] {
      auto es = bspline::examples::hydrogen::solveRadialHydrogen();
      using bspline::examples::hydrogen::L;
      if (es.size() != 10) H.fail("hydrogen:count", "expected 10 eigenpairs");
      for (size_t i = 0; i < es.size(); i++) {
        double nn = (double)(i + L + 1), an = -1.0 / (nn * nn);
        if (!(std::fabs((es[i].energy - an) / an) <= 5.0e-12)) H.fail("hydrogen:energy", "E_" + std::to_string(i) + " = " + std::to_string(es[i].energy) + " expected " + std::to_string(an));
      }
    });
    if (oc.threw()) H.fail("hydrogen:threw", oc.str());
    H.cls("hydrogen");
    H.nontriv();
    H.end();
  }
}

int main(int argc, char **argv) {
  Harness H("C20", argc, argv);
  fixed_cases(H);  // the two slow cases first so that they land on different shards
  diffusion_cases(H);
  potential_cases(H);
  return H.finish();
}
