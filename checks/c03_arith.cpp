// C03: spline arithmetic is pointwise arithmetic of the denoted functions.
// Part (a) E1: exhaustive operand pairs / collections, exact comparison with the
// reference model. Part (b): breadth-first search over all histories of
// in-place updates of one target (exact-state key), reference stepped in
// parallel.
#include <deque>
#include <unordered_map>

#include "lib.h"
using namespace vf;
using S = vf::DefaultScalar;

static const std::vector<mpq_class> &scalars() {
  static const std::vector<mpq_class> s = {mq(0), mq(1), mq(-1), mq(2), mq(1, 3), mq(-5, 7)};
  return s;
}

template <size_t o>
static bool same_fn(Harness &H, const char *key, const Spline<S, o> &r, const RefPP &ex, const std::string &ctx) {
  bool ok = true;
  RefPP got = alpha(r, &ok);
  if (!ok) { H.fail(std::string(key) + ":invalid-result", "result violates its invariant: " + dump(r)); return false; }
  if (got != ex) { H.fail(key, ctx + ": result " + dump(r) + " denotes " + got.str() + " expected " + ex.str()); return false; }
  return true;
}

// ---------------- binary operations ----------------------------------------
template <size_t oa, size_t ob>
static void binary_cases(Harness &H, const std::string &d0, const Grid<S> &g, size_t n) {
  auto W = windows(n);
  for (Win a : W)
    for (Win b : W) {
      size_t Ka = a.nint() * (oa + 1), Kb = b.nint() * (ob + 1);
      size_t za = Ka, zb = Kb;  // index of the zero pattern (0 if K==0: only pattern)
      std::vector<std::pair<size_t, size_t>> lin, bil;
      if (Ka && Kb) {
        for (size_t i = 0; i < Ka; i++) lin.push_back({i, zb});
        for (size_t j = 0; j < Kb; j++) lin.push_back({za, j});
        lin.push_back({Ka + 1, Kb + 2});
        lin.push_back({Ka + 2, Kb + 1});
        lin.push_back({Ka + 1, Kb + 1});
        for (size_t i = 0; i < Ka; i++)
          for (size_t j = 0; j < Kb; j++) bil.push_back({i, j});
        bil.push_back({Ka + 1, Kb + 2});
        bil.push_back({Ka + 2, Kb + 1});
        bil.push_back({za, Kb + 1});
        bil.push_back({Ka + 1, zb});
      } else if (Ka) {
        for (size_t i = 0; i < Ka; i++) lin.push_back({i, 0});
        lin.push_back({Ka + 1, 0});
        bil.push_back({Ka + 1, 0});
      } else if (Kb) {
        for (size_t j = 0; j < Kb; j++) lin.push_back({0, j});
        lin.push_back({0, Kb + 1});
        bil.push_back({0, Kb + 1});
      } else {
        lin.push_back({0, 0});
        bil.push_back({0, 0});
      }
      std::string dw = d0 + ";o" + std::to_string(oa) + "," + std::to_string(ob) + ";" + wstr(a) + ";" + wstr(b);
      for (int op = 0; op < 5; op++) {
        static const char *opn[] = {"add", "sub", "mul", "iadd", "isub"};
        if (op >= 3 && ob > oa) continue;
        const auto &PP = (op == 2) ? bil : lin;
        for (auto pq : PP) {
          if (!H.take()) continue;
          H.begin(dw + ";" + opn[op] + ";" + pname(Ka, pq.first) + ";" + pname(Kb, pq.second));
          auto sa = mkspline_p<S, oa>(g, a, pq.first);
          auto sb = mkspline_p<S, ob>(g, b, pq.second);
          RefPP ra = alpha(sa), rb = alpha(sb);
          Outcome oc = attempt([&] {
            if (op == 0) same_fn(H, "add", sa + sb, radd(ra, rb), "a+b");
            else if (op == 1) same_fn(H, "sub", sa - sb, rsub(ra, rb), "a-b");
            else if (op == 2) same_fn(H, "mul", sa * sb, rmul(ra, rb), "a*b");
            else if constexpr (ob <= oa) {
              Spline<S, oa> t(sa);
              if (op == 3) { auto &ret = (t += sb); same_fn(H, "iadd", t, radd(ra, rb), "a+=b"); if (&ret != &t) H.fail("iadd:ret", "+= does not return *this"); }
              else { auto &ret = (t -= sb); same_fn(H, "isub", t, rsub(ra, rb), "a-=b"); if (&ret != &t) H.fail("isub:ret", "-= does not return *this"); }
            }
          });
          if (oc.threw()) H.fail(std::string(opn[op]) + ":threw", std::string(opn[op]) + " on one grid threw " + oc.str());
          if (alpha(sa) != ra || alpha(sb) != rb) H.fail("operand-changed", "an operand changed");
          H.cls(std::string(opn[op]) + ":" + allen(a, b));
          if (!ra.zero() && !rb.zero()) H.nontriv();
          H.end();
        }
      }
    }
}

// same operations with the second operand on an EQUAL grid held in a distinct object (one generic pattern pair)
template <size_t oa, size_t ob>
static void copygrid_cases(Harness &H, const std::string &d0, const Grid<S> &g, size_t n) {
  Grid<S> gcopy = mkgrid<S>(gridpts(g));
  for (Win a : windows(n))
    for (Win b : windows(n))
      for (int op = 0; op < 4; op++) {
        static const char *opn[] = {"add", "sub", "mul", "iadd"};
        if (op == 3 && ob > oa) continue;
        if (!H.take()) continue;
        size_t Ka = a.nint() * (oa + 1), Kb = b.nint() * (ob + 1);
        H.begin(d0 + ";o" + std::to_string(oa) + "," + std::to_string(ob) + ";" + wstr(a) + ";" + wstr(b) + ";" + opn[op] + ";b-on-equal-grid-copy");
        auto sa = mkspline_p<S, oa>(g, a, Ka ? Ka + 1 : 0);
        auto sb = mkspline_p<S, ob>(gcopy, b, Kb ? Kb + 2 : 0);
        RefPP ra = alpha(sa), rb = alpha(sb);
        Outcome oc = attempt([&] {
          if (op == 0) same_fn(H, "add", sa + sb, radd(ra, rb), "a+b");
          else if (op == 1) same_fn(H, "sub", sb - sa, rsub(rb, ra), "b-a");
          else if (op == 2) same_fn(H, "mul", sb * sa, rmul(ra, rb), "b*a");
          else if constexpr (ob <= oa) { Spline<S, oa> t(sa); t += sb; same_fn(H, "iadd", t, radd(ra, rb), "a+=b"); }
        });
        if (oc.threw()) H.fail(std::string(opn[op]) + ":threw", "operation on equal grids held in distinct objects threw " + oc.str());
        H.cls("copygrid");
        if (!ra.zero() && !rb.zero()) H.nontriv();
        H.end();
      }
}

// ---------------- unary / scalar operations, self operations ------------------
template <size_t o>
static void unary_cases(Harness &H, const std::string &d0, const Grid<S> &g, size_t n) {
  for (Win a : windows(n)) {
    size_t K = a.nint() * (o + 1);
    for (size_t p = 0; p < npatterns(K); p++) {
      if (K && p >= K && p != K + 1) continue;  // units + gen1 (zero/gen2 add nothing for a linear map)
      std::string dw = d0 + ";o" + std::to_string(o) + ";" + wstr(a) + ";" + pname(K, p);
      for (size_t ci = 0; ci < scalars().size(); ci++) {
        const mpq_class &c = scalars()[ci];
        for (int op = 0; op < 5; op++) {
          static const char *opn[] = {"c*a", "a*c", "a/c", "a*=c", "a/=c"};
          if ((op == 2 || op == 4) && c == 0) continue;
          if (!H.take()) continue;
          H.begin(dw + ";" + opn[op] + ";c=" + c.get_str());
          auto sa = mkspline_p<S, o>(g, a, p);
          RefPP ra = alpha(sa);
          S cs = mk<S>(c);
          Outcome oc = attempt([&] {
            if (op == 0) same_fn(H, "c*a", cs * sa, rscale(ra, c), "c*a");
            else if (op == 1) same_fn(H, "a*c", sa * cs, rscale(ra, c), "a*c");
            else if (op == 2) same_fn(H, "a/c", sa / cs, rscale(ra, 1 / c), "a/c");
            else {
              Spline<S, o> t(sa);
              if (op == 3) { t *= cs; same_fn(H, "a*=c", t, rscale(ra, c), "a*=c"); }
              else { t /= cs; same_fn(H, "a/=c", t, rscale(ra, 1 / c), "a/=c"); }
            }
          });
          if (oc.threw()) H.fail("scalar:threw", oc.str());
          if (alpha(sa) != ra) H.fail("operand-changed", "operand changed");
          H.cls(std::string("scalar:") + opn[op]);
          if (!ra.zero() && c != 0) H.nontriv();
          H.end();
        }
      }
      // unary minus and same-object binary operations
      for (int op = 0; op < 6; op++) {
        static const char *opn[] = {"-a", "a+a", "a-a", "a*a", "a+=a", "a-=a"};
        if (!H.take()) continue;
        H.begin(dw + ";" + opn[op]);
        auto sa = mkspline_p<S, o>(g, a, p);
        RefPP ra = alpha(sa);
        Outcome oc = attempt([&] {
          if (op == 0) same_fn(H, "neg", -sa, rscale(ra, -1), "-a");
          else if (op == 1) same_fn(H, "self-add", sa + sa, rscale(ra, 2), "a+a");
          else if (op == 2) same_fn(H, "self-sub", sa - sa, RefPP{}, "a-a");
          else if (op == 3) same_fn(H, "self-mul", sa * sa, rmul(ra, ra), "a*a");
          else if (op == 4) { sa += sa; same_fn(H, "self-iadd", sa, rscale(ra, 2), "a+=a"); }
          else { sa -= sa; same_fn(H, "self-isub", sa, RefPP{}, "a-=a"); }
        });
        if (oc.threw()) H.fail("self:threw", oc.str());
        if (op < 4 && alpha(sa) != ra) H.fail("operand-changed", "operand changed");
        H.cls(std::string("self:") + opn[op]);
        if (!ra.zero()) H.nontriv();
        H.end();
      }
    }
  }
}

// ---------------- cross-order assignment -------------------------------------
template <size_t lo, size_t hi>
static void assign_cases(Harness &H, const std::string &d0, const Grid<S> &g, size_t n) {
  if constexpr (lo < hi) {
    for (Win a : windows(n)) {
      size_t K = a.nint() * (lo + 1);
      for (size_t p = 0; p < npatterns(K); p++) {
        if (K && p >= K && p != K + 1) continue;
        for (Win tw : {Win{0, 0}, Win{0, n}, Win{1, 2}, Win{n - 2, n}}) {
          if (!H.take()) continue;
          H.begin(d0 + ";assign;o" + std::to_string(lo) + "->" + std::to_string(hi) + ";" + wstr(a) + ";" + pname(K, p) + ";target=" + wstr(tw));
          auto sa = mkspline_p<S, lo>(g, a, p);
          auto t = mkspline_p<S, hi>(g, tw, tw.nint() * (hi + 1) ? tw.nint() * (hi + 1) + 1 : 0);
          RefPP ra = alpha(sa);
          Outcome oc = attempt([&] { auto &ret = (t = sa); if (&ret != &t) H.fail("assign:ret", "= does not return *this"); });
          if (oc.threw()) H.fail("assign:threw", oc.str());
          same_fn(H, "assign", t, ra, "higher = lower");
          if (t.getSupport().getStartIndex() != a.s || t.getSupport().getEndIndex() != a.e) H.fail("assign:window", "window not taken over");
          if (alpha(sa) != ra) H.fail("operand-changed", "source changed");
          H.cls("assign");
          if (!ra.zero()) H.nontriv();
          H.end();
        }
      }
    }
  }
}

// ---------------- linearCombination ---------------------------------------------
template <size_t o>
static void lincomb_cases(Harness &H, const std::string &d0, const Grid<S> &g, size_t n, bool big) {
  auto W = windows(n);
  static const std::vector<std::vector<mpq_class>> tup3 = {{mq(1), mq(1), mq(1)}, {mq(2), mq(-1), mq(1, 3)}, {mq(0), mq(1), mq(0)}, {mq(-5, 7), mq(0), mq(2)}, {mq(1, 3), mq(1, 3), mq(-1)}, {mq(0), mq(0), mq(0)}};
  for (size_t k = 1; k <= 3; k++) {
    size_t nt = 1;
    for (size_t i = 0; i < k; i++) nt *= W.size();
    for (size_t code = 0; code < nt; code++) {
      std::vector<Win> ws;
      size_t c = code;
      for (size_t i = 0; i < k; i++) { ws.push_back(W[c % W.size()]); c /= W.size(); }
      if (k == 3 && !big && (code % 3)) continue;  // quick tier: every third triple
      // scalar tuples
      std::vector<std::vector<mpq_class>> tuples;
      if (k == 1) for (auto &x : scalars()) tuples.push_back({x});
      else if (k == 2) { for (auto &x : scalars()) for (auto &y : {mq(1), mq(-5, 7), mq(0)}) tuples.push_back({x, y}); }
      else tuples = tup3;
      for (size_t ti = 0; ti < tuples.size(); ti++)
        for (int pv = 0; pv < 3; pv++) {
          if (!H.take()) continue;
          std::string d = d0 + ";lincomb;o" + std::to_string(o) + ";k=" + std::to_string(k);
          std::vector<Spline<S, o>> sp;
          for (size_t i = 0; i < k; i++) {
            size_t K = ws[i].nint() * (o + 1);
            size_t p = K == 0 ? 0 : (pv == 0 ? K + 1 : pv == 1 ? K + 2 : (i * 5 + 1) % K);
            sp.push_back(mkspline_p<S, o>(g, ws[i], p));
            d += ";" + wstr(ws[i]) + ":" + pname(K, p) + "*" + tuples[ti][i].get_str();
          }
          H.begin(d);
          std::vector<S> cs;
          for (auto &x : tuples[ti]) cs.push_back(mk<S>(x));
          RefPP ex;
          bool nz = false;
          for (size_t i = 0; i < k; i++) { ex = radd(ex, rscale(alpha(sp[i]), tuples[ti][i])); nz = nz || (!alpha(sp[i]).zero() && tuples[ti][i] != 0); }
          Outcome oc = attempt([&] {
            same_fn(H, "lincomb", bspline::linearCombination(cs, sp), ex, "linearCombination");
            same_fn(H, "lincomb-iter", bspline::linearCombination(cs.begin(), cs.end(), sp.begin(), sp.end()), ex, "linearCombination(iterators)");
          });
          if (oc.threw()) H.fail("lincomb:threw", oc.str());
          H.cls("lincomb:k" + std::to_string(k));
          if (nz) H.nontriv();
          H.end();
        }
    }
  }
}

// ---------------- histories of in-place updates (BFS, exact key) ---------------
struct HistOp { int kind; int src; mpq_class c; std::string name; };
// kinds: 0 += src, 1 -= src, 2 = src (copy), 3 = move(copy of src), 4 *= c, 5 /= c
template <size_t OT>
struct Hist {
  using T2 = Spline<S, OT>;
  Grid<S> g;
  std::vector<Spline<S, OT>> same;   // sources of the target's order
  std::vector<Spline<S, OT - 1>> low;  // lower-order sources
  std::vector<HistOp> ops;
  Hist(const Grid<S> &g_, size_t n) : g(g_) {
    same.push_back(mkspline_p<S, OT>(g, Win{0, n}, (n - 1) * (OT + 1) + 1));
    same.push_back(mkspline_p<S, OT>(g, Win{1, 3}, 2 * (OT + 1) + 2));
    same.push_back(mkspline_p<S, OT>(g, Win{n - 1, n}, 0));  // point-like
    low.push_back(mkspline_p<S, OT - 1>(g, Win{n - 2, n}, 1 * OT + 1));
    low.push_back(mkspline_p<S, OT - 1>(g, Win{0, 2}, 0));
    for (int s = 0; s < 5; s++) {
      std::string sn = "src" + std::to_string(s);
      ops.push_back({0, s, 0, "+=" + sn});
      ops.push_back({1, s, 0, "-=" + sn});
      ops.push_back({2, s, 0, "=" + sn});
      if (s < 3) ops.push_back({3, s, 0, "=move(" + sn + ")"});
    }
    ops.push_back({4, 0, mq(2), "*=2"});
    ops.push_back({4, 0, mq(-5, 7), "*=-5/7"});
    ops.push_back({4, 0, mq(0), "*=0"});
    ops.push_back({5, 0, mq(3), "/=3"});
  }
  RefPP src_ref(int s) const { return s < 3 ? alpha(same[s]) : alpha(low[s - 3]); }
  Win src_win(int s) const {
    if (s < 3) return Win{same[s].getSupport().getStartIndex(), same[s].getSupport().getEndIndex()};
    return Win{low[s - 3].getSupport().getStartIndex(), low[s - 3].getSupport().getEndIndex()};
  }
  void apply(T2 &t, const HistOp &op) const {
    switch (op.kind) {
      case 0: if (op.src < 3) t += same[op.src]; else t += low[op.src - 3]; break;
      case 1: if (op.src < 3) t -= same[op.src]; else t -= low[op.src - 3]; break;
      case 2: if (op.src < 3) t = same[op.src]; else t = low[op.src - 3]; break;
      case 3: { T2 tmp(same[op.src]); t = std::move(tmp); break; }
      case 4: t *= mk<S>(op.c); break;
      case 5: t /= mk<S>(op.c); break;
    }
  }
  RefPP apply_ref(const RefPP &r, const HistOp &op) const {
    switch (op.kind) {
      case 0: return radd(r, src_ref(op.src));
      case 1: return rsub(r, src_ref(op.src));
      case 2: case 3: return src_ref(op.src);
      case 4: return rscale(r, op.c);
      default: return rscale(r, 1 / op.c);
    }
  }
};

template <size_t OT>
static void history_bfs(Harness &H, const std::string &d0, const Grid<S> &g, size_t n, size_t depth) {
  Hist<OT> hs(g, n);
  using T2 = Spline<S, OT>;
  // A state is the exact observable value of the target (window + coefficients),
  // represented by the shortest history reaching it and re-created by replaying
  // that history on a fresh object. Levels 0..SPLIT-1 are explored by every
  // worker (checked by worker 0); the frontier at level SPLIT is partitioned
  // over the workers, each continuing breadth-first with its own visited set
  // (sound for a depth-bounded search: a worker prunes a state only if it has
  // itself expanded it at a smaller or equal depth).
  const size_t SPLIT = 2;
  std::unordered_map<std::string, size_t> seen;  // key -> depth first seen
  std::deque<std::vector<int>> frontier;
  auto build = [&](const std::vector<int> &h, RefPP &ref) {
    T2 t(g);
    ref = RefPP{};
    for (int oi : h) { hs.apply(t, hs.ops[oi]); ref = hs.apply_ref(ref, hs.ops[oi]); }
    return t;
  };
  {
    RefPP r;
    T2 t0 = build({}, r);
    seen[dump(t0)] = 0;
    frontier.push_back({});
    if (H.shard == 0) H.count("states");
  }
  size_t split_counter = 0;
  while (!frontier.empty()) {
    std::vector<int> h = frontier.front();
    frontier.pop_front();
    if (h.size() >= depth) continue;
    bool shared_level = h.size() < SPLIT;
    if (h.size() == SPLIT && H.only < 0) {
      // partition the frontier of level SPLIT
      if ((long)(split_counter++ % H.nshards) != H.shard) continue;
    } else if (h.size() == SPLIT) {
      if ((long)(split_counter++ % H.nshards) != H.shard) continue;
    }
    for (size_t oi = 0; oi < hs.ops.size(); oi++) {
      bool mine = H.take_if(shared_level ? H.shard == 0 : true);
      RefPP ref;
      T2 t = build(h, ref);
      std::string before = mine ? dump(t) : std::string();
      if (mine) {
        std::string hd = d0 + ";history;o" + std::to_string(OT);
        for (int x : h) hd += ";" + hs.ops[x].name;
        hd += ";" + hs.ops[oi].name;
        H.begin(hd);
      }
      if (mine) {
        // evaluate before the update (whatever the evaluation leaves behind in the object must not survive the update)
        for (const mpq_class &x : {mq(-5, 2), mq(-1), mq(1, 4)}) (void)t(mk<S>(x));
      }
      Outcome oc = attempt([&] { hs.apply(t, hs.ops[oi]); });
      if (mine) {
        RefPP ex = hs.apply_ref(ref, hs.ops[oi]);
        if (!oc.threw()) {
          // ... and the updated object must EVALUATE to the reference function, first of all in the intervals
          // that were evaluated before the update
          auto gp = gridpts(g);
          std::vector<mpq_class> xs = {mq(-5, 2), mq(-1), mq(1, 4)};
          for (size_t i = 0; i + 1 < gp.size(); i++) { xs.push_back((gp[i] + 3 * gp[i + 1]) / 4); xs.push_back((gp[i] + gp[i + 1]) / 2); }
          for (auto &x : xs) {
            size_t iv = 0;
            while (iv + 2 < gp.size() && x > gp[iv + 1]) iv++;
            mpq_class want = peval(ex.get(iv), x), got = val(t(mk<S>(x)));
            if (got != want) { H.fail("history:eval", "after the history the object evaluates to " + got.get_str() + " at x = " + x.get_str() + ", the denoted function has " + want.get_str()); break; }
          }
        }
        H.count("transitions");
        H.count("traces_validated_against_impl");
        if (oc.threw()) H.fail("history:threw", oc.str());
        else same_fn(H, "history", t, ex, "after history");
        // replaying the same history must give the same state (determinism of the replay)
        RefPP r2;
        T2 t2 = build(h, r2);
        if (dump(t2) != before) H.fail("history:replay-diverged", "replay of the same history differs");
        H.cls("history:" + hs.ops[oi].name);
        if (!ex.zero()) H.nontriv();
        H.end();
      }
      if (oc.threw()) continue;
      std::string key = dump(t);
      if (!seen.count(key)) {
        std::vector<int> h2 = h;
        h2.push_back((int)oi);
        seen[key] = h2.size();
        frontier.push_back(h2);
        if (!shared_level || H.shard == 0) H.count("states");
        H.counters["max:history_depth"] = std::max<long>(H.counters["max:history_depth"], (long)h2.size());
      }
    }
  }
}

// ---------------- size as an alphabet: long supports and long collections ---------------------------------
// (strategies that switch with the number of intervals or of summands have to be exercised beyond small sizes)
static void large_cases(Harness &H) {
  for (size_t n : std::vector<size_t>{34, 67}) {
    auto pts = grid_family("uni", n);
    for (size_t i = 0; i < n; i++) pts[i] = pts[i] * pts[i] / mpq_class((long)n) + pts[i] / 3 - 5;
    Grid<S> g = mkgrid<S>(pts);
    std::string d0 = "large" + std::to_string(n);
    std::vector<std::pair<Win, Win>> WW = {{Win{0, n}, Win{0, n}}, {Win{0, n - 1}, Win{1, n}}, {Win{2, n / 2}, Win{n / 2 - 3, n - 1}}, {Win{0, 5}, Win{n - 5, n}}, {Win{1, n - 1}, Win{n / 2, n / 2 + 2}}};
    for (auto &ww : WW)
      for (int op = 0; op < 5; op++) {
        static const char *opn[] = {"add", "sub", "mul", "iadd", "isub"};
        if (!H.take()) continue;
        H.begin(d0 + ";o2,1;" + wstr(ww.first) + ";" + wstr(ww.second) + ";" + opn[op]);
        auto sa = mkspline_p<S, 2>(g, ww.first, ww.first.nint() * 3 + 1);
        auto sb = mkspline_p<S, 1>(g, ww.second, ww.second.nint() * 2 + 2);
        RefPP ra = alpha(sa), rb = alpha(sb);
        Outcome oc = attempt([&] {
          if (op == 0) same_fn(H, "add", sa + sb, radd(ra, rb), "a+b");
          else if (op == 1) same_fn(H, "sub", sb - sa, rsub(rb, ra), "b-a");
          else if (op == 2) same_fn(H, "mul", sa * sb, rmul(ra, rb), "a*b");
          else if (op == 3) { auto t = sa; t += sb; same_fn(H, "iadd", t, radd(ra, rb), "a+=b"); }
          else { auto t = sa; t -= sb; same_fn(H, "isub", t, rsub(ra, rb), "a-=b"); }
        });
        if (oc.threw()) H.fail("large:threw", oc.str());
        H.cls("large:binary");
        H.nontriv();
        H.end();
      }
    // long collections for linearCombination: every spline of a generated order-2 basis, and shuffled subsets with zero and interval-free members
    for (size_t k : std::vector<size_t>{8, 17, 33, n - 3}) {
      if (!H.take()) continue;
      H.begin(d0 + ";lincomb;k=" + std::to_string(k));
      std::vector<Spline<S, 2>> sp;
      std::vector<S> cs;
      RefPP ex;
      for (size_t i = 0; i < k; i++) {
        size_t s0 = (i * 7) % (n - 3);
        Win w = (i % 5 == 4) ? Win{s0, s0 + 1} : (i % 11 == 10) ? Win{0, 0} : Win{s0, std::min(n, s0 + 2 + i % 3)};
        size_t K = w.nint() * 3;
        sp.push_back(mkspline_p<S, 2>(g, w, K ? K + 1 + i % 2 : 0));
        mpq_class c = (i % 6 == 5) ? mq(0) : mq((long)(i % 7) - 3, 1 + (long)(i % 3));
        cs.push_back(mk<S>(c));
        ex = radd(ex, rscale(alpha(sp.back()), c));
      }
      Outcome oc = attempt([&] {
        same_fn(H, "lincomb", bspline::linearCombination(cs, sp), ex, "linearCombination of " + std::to_string(k) + " splines");
        same_fn(H, "lincomb-iter", bspline::linearCombination(cs.begin(), cs.end(), sp.begin(), sp.end()), ex, "linearCombination(iterators)");
      });
      if (oc.threw()) H.fail("large:threw", oc.str());
      H.cls("large:lincomb");
      H.nontriv();
      H.end();
    }
  }
}

template <size_t OMAX>
static void per_grid(Harness &H, const std::string &d0, const Grid<S> &g, size_t n, bool big) {
  auto pairs = [&](auto OA) {
    constexpr size_t oa = decltype(OA)::value;
    auto inner = [&](auto OB) { binary_cases<oa, decltype(OB)::value>(H, d0, g, n); copygrid_cases<oa, decltype(OB)::value>(H, d0, g, n); assign_cases<oa, decltype(OB)::value>(H, d0, g, n); };
    inner(std::integral_constant<size_t, 0>{});
    inner(std::integral_constant<size_t, 1>{});
    inner(std::integral_constant<size_t, 2>{});
    if constexpr (OMAX >= 3) inner(std::integral_constant<size_t, 3>{});
    unary_cases<oa>(H, d0, g, n);
    lincomb_cases<oa>(H, d0, g, n, big);
  };
  pairs(std::integral_constant<size_t, 0>{});
  pairs(std::integral_constant<size_t, 1>{});
  pairs(std::integral_constant<size_t, 2>{});
  if constexpr (OMAX >= 3) {
    pairs(std::integral_constant<size_t, 3>{});
    binary_cases<4, 0>(H, d0, g, n);
    binary_cases<0, 4>(H, d0, g, n);
  }
}

static void run(Harness &H) {
  std::string part = H.args.count("part") ? H.args["part"] : "all";
  std::vector<std::string> fams = H.thorough() ? std::vector<std::string>{"nonuni", "far", "uni", "neg"} : std::vector<std::string>{"nonuni", "far"};
  if (H.thorough()) fams.push_back("nonuni6");  // one larger grid (22 windows, 484 ordered pairs)
  for (auto fam : fams) {
    size_t n = 5;
    if (fam == "nonuni6") { fam = "nonuni"; n = 6; }
    auto pts = grid_family(fam, n);
    Grid<S> g = mkgrid<S>(pts);
    std::string d0 = fam + std::to_string(n);
    if (part == "all" || part == "e1") {
      if (H.thorough()) per_grid<3>(H, d0, g, n, true);
      else per_grid<2>(H, d0, g, n, false);
    }
  }
  if (part == "all" || part == "e1") large_cases(H);
  if (part == "all" || part == "hist") {
    auto pts = grid_family("nonuni", 4);
    Grid<S> g = mkgrid<S>(pts);
    history_bfs<2>(H, "nonuni4", g, 4, H.thorough() ? 6 : 4);
    history_bfs<1>(H, "nonuni4", g, 4, H.thorough() ? 5 : 3);
  }
}

int main(int argc, char **argv) {
  Harness H("C03", argc, argv);
  run(H);
  return H.finish();
}
