// C08: operations across different grids are refused, never computed; equal
// grids in distinct objects are the same grid.
#include <bspline/integration/numerical.h>

#include <functional>

#include "oplist.h"
using namespace vf;
using S = vf::DefaultScalar;
using bspline::integration::BilinearForm;
using bspline::integration::LinearForm;

struct GV {
  std::string name;
  std::vector<mpq_class> pts;
  bool equal;
};

static std::vector<GV> variants(const std::vector<mpq_class> &g) {
  std::vector<GV> r;
  r.push_back({"copy", g, true});
  for (size_t i = 0; i < g.size(); i++) {
    auto p = g;
    p[i] += mq(1, 8);
    r.push_back({"moved" + std::to_string(i), p, false});
  }
  {
    auto p = g;
    p.insert(p.begin(), g.front() - 1);
    r.push_back({"extra-front", p, false});
    p = g;
    p.push_back(g.back() + 1);
    r.push_back({"extra-back", p, false});
    for (size_t i = 0; i + 1 < g.size(); i++) {
      p = g;
      p.insert(p.begin() + i + 1, (g[i] + g[i + 1]) / 2);
      r.push_back({"extra-inside" + std::to_string(i), p, false});
    }
  }
  for (size_t k = 2; k < g.size(); k++) {
    r.push_back({"prefix" + std::to_string(k), std::vector<mpq_class>(g.begin(), g.begin() + k), false});
    r.push_back({"suffix" + std::to_string(k), std::vector<mpq_class>(g.end() - k, g.end()), false});
  }
  return r;
}

// double twin of the case for numerical integration (boost quadrature needs a
// real floating type): only the refusal and "same as shared instance" are judged
template <size_t oa, size_t ob>
static std::string integrate_double(const std::vector<mpq_class> &pa, Win a, const std::vector<mpq_class> &pb, Win b, bool sameObject) {
  Grid<double> ga = mkgrid<double>(pa);
  Grid<double> gb = sameObject ? ga : mkgrid<double>(pb);
  auto sa = mkspline_p<double, oa>(ga, a, a.nint() ? a.nint() * (oa + 1) + 1 : 0);
  auto sb = mkspline_p<double, ob>(gb, b, b.nint() ? b.nint() * (ob + 1) + 1 : 0);
  double r = bspline::integration::integrate<3>([](const double &x) { return x; }, sa, sb);
  char buf[64];
  snprintf(buf, sizeof buf, "%a", r);
  return buf;
}

template <size_t oa, size_t ob>
static void cases(Harness &H, const std::vector<mpq_class> &gp) {
  Grid<S> g = mkgrid<S>(gp);
  using OL = OpList<S>;
  for (const GV &gv : variants(gp)) {
    Grid<S> g2 = mkgrid<S>(gv.pts);
    for (Win a : windows(gp.size()))
      for (Win b : windows(gv.pts.size())) {
        size_t Ka = a.nint() * (oa + 1), Kb = b.nint() * (ob + 1);
        size_t pa = Ka ? Ka + 1 : 0, pb = Kb ? Kb + 2 : 0;
        // entry points: name, needs (operand interval rule), body returning a digest
        struct EP { const char *name; int rule; std::function<std::string(const Spline<S, oa> &, const Spline<S, ob> &, const Grid<S> &)> f; };
        // rule 0: always refuse on different grids; 1: refuse iff a has >=1 interval (factor b); 2: refuse iff a has >= 1 interval (factor on other grid inside a bilinear form of (a,a))
        std::vector<EP> eps;
        eps.push_back({"a+b", 0, [](auto &x, auto &y, auto &) { return dump(x + y); }});
        eps.push_back({"a-b", 0, [](auto &x, auto &y, auto &) { return dump(x - y); }});
        eps.push_back({"a*b", 0, [](auto &x, auto &y, auto &) { return dump(x * y); }});
        eps.push_back({"b+a", 0, [](auto &x, auto &y, auto &) { return dump(y + x); }});
        eps.push_back({"b*a", 0, [](auto &x, auto &y, auto &) { return dump(y * x); }});
        if constexpr (ob <= oa) {
          eps.push_back({"a+=b", 0, [](auto &x, auto &y, auto &) { Spline<S, oa> t(x); t += y; return dump(t); }});
          eps.push_back({"a-=b", 0, [](auto &x, auto &y, auto &) { Spline<S, oa> t(x); t -= y; return dump(t); }});
        }
        if constexpr (oa == ob) {
          eps.push_back({"lincomb(a,b)", 0, [](auto &x, auto &y, auto &) { std::vector<S> c{mki<S>(2), mki<S>(3)}; std::vector<Spline<S, oa>> v{x, y}; return dump(bspline::linearCombination(c, v)); }});
          eps.push_back({"lincomb(b,a)", 0, [](auto &x, auto &y, auto &) { std::vector<S> c{mki<S>(2), mki<S>(3)}; std::vector<Spline<S, oa>> v{y, x}; return dump(bspline::linearCombination(c, v)); }});
          eps.push_back({"lincomb(a,a,b)", 0, [](auto &x, auto &y, auto &) { std::vector<S> c{mki<S>(2), mki<S>(3), mki<S>(5)}; std::vector<Spline<S, oa>> v{x, x, y}; return dump(bspline::linearCombination(c.begin(), c.end(), v.begin(), v.end())); }});
          // the coefficient values must not matter for the refusal: zero on the odd-grid spline, zero elsewhere, all zero
          eps.push_back({"lincomb(a,b);c=(2,0)", 0, [](auto &x, auto &y, auto &) { std::vector<S> c{mki<S>(2), mki<S>(0)}; std::vector<Spline<S, oa>> v{x, y}; return dump(bspline::linearCombination(c, v)); }});
          eps.push_back({"lincomb(b,a);c=(0,3)", 0, [](auto &x, auto &y, auto &) { std::vector<S> c{mki<S>(0), mki<S>(3)}; std::vector<Spline<S, oa>> v{y, x}; return dump(bspline::linearCombination(c, v)); }});
          eps.push_back({"lincomb(a,b);c=(0,3)", 0, [](auto &x, auto &y, auto &) { std::vector<S> c{mki<S>(0), mki<S>(3)}; std::vector<Spline<S, oa>> v{x, y}; return dump(bspline::linearCombination(c.begin(), c.end(), v.begin(), v.end())); }});
          eps.push_back({"lincomb(a,b);c=(0,0)", 0, [](auto &x, auto &y, auto &) { std::vector<S> c{mki<S>(0), mki<S>(0)}; std::vector<Spline<S, oa>> v{x, y}; return dump(bspline::linearCombination(c, v)); }});
          eps.push_back({"lincomb(a,a,b);c=(2,3,0)", 0, [](auto &x, auto &y, auto &) { std::vector<S> c{mki<S>(2), mki<S>(3), mki<S>(0)}; std::vector<Spline<S, oa>> v{x, x, y}; return dump(bspline::linearCombination(c, v)); }});
          eps.push_back({"lincomb(a,b,a)", 0, [](auto &x, auto &y, auto &) { std::vector<S> c{mki<S>(2), mki<S>(3), mki<S>(5)}; std::vector<Spline<S, oa>> v{x, y, x}; return dump(bspline::linearCombination(c, v)); }});
        }
        eps.push_back({"BilinearForm{}(a,b)", 0, [](auto &x, auto &y, auto &) { return val(BilinearForm{}(x, y)).get_str(); }});
        eps.push_back({"BilinearForm{Dx1,X1}(a,b)", 0, [](auto &x, auto &y, auto &) { return val(BilinearForm{Dx<1>{}, X<1>{}}(x, y)).get_str(); }});
        eps.push_back({"BilinearForm{V(b)}(a,a)", 1, [](auto &x, auto &y, auto &) { return val(BilinearForm{SplineOperator{y}}(x, x)).get_str(); }});
        eps.push_back({"BilinearForm{V(b)*Dx1,I}(a,a)", 1, [](auto &x, auto &y, auto &) { return val(BilinearForm{SplineOperator{y} * Dx<1>{}, IdentityOperator{}}(x, x)).get_str(); }});
        eps.push_back({"LinearForm{V(b)}(a)", 1, [](auto &x, auto &y, auto &) { return val(LinearForm{SplineOperator{y}}(x)).get_str(); }});
        eps.push_back({"V(b)*a", 1, [](auto &x, auto &y, auto &) { return dump(SplineOperator{y} * x); }});
        eps.push_back({"(X1+V(b))*a", 1, [](auto &x, auto &y, auto &) { return dump((X<1>{} + SplineOperator{y}) * x); }});
        for (auto &ep : eps) {
          if (!H.take()) continue;
          H.begin("o" + std::to_string(oa) + "," + std::to_string(ob) + ";" + gv.name + ";" + ep.name + ";" + wstr(a) + ";" + wstr(b));
          auto sa = mkspline_p<S, oa>(g, a, pa);
          auto sb = mkspline_p<S, ob>(g2, b, pb);
          std::string da = dump(sa), db = dump(sb);
          auto ga0 = gridpts(sa.getSupport().getGrid()), gb0 = gridpts(sb.getSupport().getGrid());
          std::string res;
          Outcome oc = attempt([&] { res = ep.f(sa, sb, g); });
          if (gv.equal) {
            // must equal the result with a shared grid instance
            if (oc.threw()) H.fail("equal-grid-refused", std::string(ep.name) + " on equal grids held in distinct objects threw " + oc.str());
            else {
              auto sb_same = mkspline_p<S, ob>(g, b, pb);
              std::string ref;
              Outcome o2 = attempt([&] { ref = ep.f(sa, sb_same, g); });
              if (o2.threw() || ref != res) H.fail("equal-grid-result", std::string(ep.name) + ": result " + res + " differs from the shared-instance result " + ref);
            }
            H.cls("equal-grids:computed");
          } else {
            bool must = ep.rule == 0 || a.nint() >= 1;
            if (must) {
              if (oc.o != Out::BSPLINE_EXC || oc.code != (int)ErrorCode::DIFFERING_GRIDS)
                H.fail("not-refused", std::string(ep.name) + " across logically different grids (" + gv.name + "): " + (oc.threw() ? oc.str() : "computed " + res));
              H.cls(std::string("different:must-refuse:") + (a.nint() && b.nint() ? "both-intervals" : "interval-free-arg"));
              H.nontriv();
            } else {
              if (oc.o == Out::OTHER_EXC) H.fail("foreign-exception", oc.what);
              if (oc.o == Out::BSPLINE_EXC && oc.code != (int)ErrorCode::DIFFERING_GRIDS) H.fail("wrong-code", oc.str());
              H.cls(std::string("different:either:") + (oc.threw() ? "threw" : "value"));
            }
          }
          if (dump(sa) != da || dump(sb) != db || gridpts(sa.getSupport().getGrid()) != ga0 || gridpts(sb.getSupport().getGrid()) != gb0)
            H.fail("argument-changed", std::string(ep.name) + " changed an argument");
          H.end();
        }
        // numerical integration (double twin)
        if (H.take()) {
          H.begin("o" + std::to_string(oa) + "," + std::to_string(ob) + ";" + gv.name + ";integrate<3>;" + wstr(a) + ";" + wstr(b));
          std::string res;
          Outcome oc = attempt([&] { res = integrate_double<oa, ob>(gp, a, gv.pts, b, false); });
          if (gv.equal) {
            std::string ref;
            Outcome o2 = attempt([&] { ref = integrate_double<oa, ob>(gp, a, gv.pts, b, true); });
            if (oc.threw() || o2.threw() || ref != res) H.fail("equal-grid-result", "integrate<3>: " + res + " vs shared instance " + ref + " " + oc.str());
            H.cls("equal-grids:computed");
          } else {
            if (oc.o != Out::BSPLINE_EXC || oc.code != (int)ErrorCode::DIFFERING_GRIDS) H.fail("not-refused", "integrate<3> across different grids: " + (oc.threw() ? oc.str() : "computed " + res));
            H.cls("different:must-refuse:integrate");
            H.nontriv();
          }
          H.end();
        }
      }
    // generator with supplied grid; knots = the points of G, simple / clamped (ends three-fold) / one interior double knot
    // (with repeated knots there are fewer distinct values than knots: guards that count knots instead of points)
    for (int km = 0; km < 3; km++) {
      if (!H.take()) continue;
      static const char *kmn[] = {"simple", "clamped", "interior-double"};
      H.begin("o" + std::to_string(oa) + "," + std::to_string(ob) + ";" + gv.name + ";generator;knots=" + kmn[km]);
      std::vector<mpq_class> kn;
      for (size_t i = 0; i < gp.size(); i++) {
        size_t rep = km == 1 && (i == 0 || i + 1 == gp.size()) ? 3 : (km == 2 && i == gp.size() / 2 ? 2 : 1);
        for (size_t r = 0; r < rep; r++) kn.push_back(gp[i]);
      }
      std::string res, ref;
      Outcome oc = attempt([&] {
        bspline::BSplineGenerator<S> gen(to_s<S>(kn), g2);
        for (auto &s : gen.template generateBSplines<oa>()) res += dump(s) + "|";
      });
      if (gv.equal) {
        bspline::BSplineGenerator<S> gen(to_s<S>(kn));
        for (auto &s : gen.template generateBSplines<oa>()) ref += dump(s) + "|";
        if (oc.threw() || res != ref) H.fail("equal-grid-result", "generator with an equal grid object: " + oc.str());
        H.cls("generator:accepted");
      } else {
        if (oc.o != Out::BSPLINE_EXC) H.fail("not-refused", "generator accepted a supplied grid that does not match its knots (" + gv.name + ", " + kmn[km] + " knots): " + oc.str());
        H.cls("generator:refused");
        H.nontriv();
      }
      H.end();
    }
  }
}

static void run(Harness &H) {
  // base grids with an odd and with an even number of points (comparisons that treat the middle specially)
  auto gp = grid_family("nonuni", 5), gp4 = grid_family("nonuni", 4);
  cases<1, 1>(H, gp);
  cases<1, 0>(H, gp4);
  if (H.thorough()) {
    cases<1, 1>(H, gp4);
    cases<0, 0>(H, gp);
    cases<0, 1>(H, gp);
    cases<2, 2>(H, gp);
    cases<2, 1>(H, gp);
    cases<0, 2>(H, gp);
  }
}

int main(int argc, char **argv) {
  Harness H("C08", argc, argv);
  run(H);
  return H.finish();
}
