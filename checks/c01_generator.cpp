// C01: generated basis functions are exactly the Cox-de Boor B-splines.
#include <cmath>

#include "lib.h"
using namespace vf;
using S = vf::DefaultScalar;

struct Knots {
  std::vector<mpq_class> t, grid;
  std::vector<size_t> mult;
  std::string desc;
};

// all multiplicity compositions of m x all gap patterns x offsets
template <class F>
static void all_knots(size_t M, const std::vector<mpq_class> &gaps, const std::vector<mpq_class> &offsets, F f) {
  for (size_t m = 1; m <= M; m++)
    for (size_t comp = 0; comp < ((size_t)1 << (m - 1)); comp++) {
      // bit k set: knot k+1 starts a new distinct value
      std::vector<size_t> mult{1};
      for (size_t k = 0; k + 1 < m; k++) {
        if (comp >> k & 1) mult.push_back(1);
        else mult.back()++;
      }
      size_t g = mult.size();
      size_t ngp = 1;
      for (size_t i = 0; i + 1 < g; i++) ngp *= gaps.size();
      for (size_t gp = 0; gp < ngp; gp++)
        for (const auto &off : offsets) {
          Knots K;
          K.mult = mult;
          mpq_class x = off;
          size_t c = gp;
          std::string ms, gs;
          for (size_t i = 0; i < g; i++) {
            K.grid.push_back(x);
            for (size_t r = 0; r < mult[i]; r++) K.t.push_back(x);
            ms += (i ? "," : "") + std::to_string(mult[i]);
            if (i + 1 < g) {
              gs += (i ? "," : "") + gaps[c % gaps.size()].get_str();
              x += gaps[c % gaps.size()];
              c /= gaps.size();
            }
          }
          K.desc = "mult=" + ms + ";gaps=" + gs + ";t0=" + off.get_str();
          f(K);
        }
    }
}

template <size_t p>
static void one(Harness &H, const Knots &K) {
  if (!H.take()) return;
  H.begin("p=" + std::to_string(p) + ";" + K.desc);
  size_t m = K.t.size(), g = K.grid.size();
  bool knots_ok = g >= 2;
  bool valid = knots_ok && m >= p + 1;
  std::vector<Spline<S, p>> r0, r1, r2;
  Outcome oc = attempt([&] { bspline::BSplineGenerator<S> gen(to_s<S>(K.t)); r0 = gen.template generateBSplines<p>(); });
  if (!valid) {
    // outside the statement of C01 (what happens to malformed input is C11's business): executed, not judged
    H.cls(knots_ok ? "refused:too-few-knots" : "refused:one-distinct-value");
    H.end();
    return;
  }
  if (oc.threw()) { H.fail("valid-refused", "valid knot vector refused: " + oc.str()); H.end(); return; }
  // other construction routes must give the same functions
  Outcome o1 = attempt([&] { bspline::BSplineGenerator<S> gen(to_s<S>(K.t), mkgrid<S>(K.grid)); r1 = gen.template generateBSplines<p>(); });
  Outcome o2 = attempt([&] { r2 = bspline::generateBSplines<p>(to_s<S>(K.t)); });
  if (o1.threw() || o2.threw()) H.fail("route-refused", "supplied-grid or free-function route refused a valid knot vector: " + o1.str() + " / " + o2.str());
  else {
    if (r1.size() != r0.size() || r2.size() != r0.size()) H.fail("route-count", "construction routes return different numbers of functions");
    else
      for (size_t i = 0; i < r0.size(); i++)
        if (!(r1[i] == r0[i]) || !(r2[i] == r0[i])) H.fail("route-differs", "function " + std::to_string(i) + " differs between construction routes");
  }
  if (r0.size() != m - p - 1) { H.fail("count", std::to_string(r0.size()) + " functions, expected m-p-1 = " + std::to_string(m - p - 1)); H.end(); return; }
  std::vector<RefPP> A;
  for (size_t i = 0; i < r0.size(); i++) {
    bool ok = true;
    A.push_back(alpha(r0[i], &ok));
    if (!ok) H.fail("invalid-result", dump(r0[i]));
    if (!(r0[i].getSupport().getGrid() == mkgrid<S>(K.grid))) H.fail("grid", "result lives on another grid");
    RefPP ex = ref_bspline(K.t, K.grid, i, p);
    if (A[i] != ex) H.fail("coxdeboor", "B_{" + std::to_string(i) + "," + std::to_string(p) + "} = " + A[i].str() + " but Cox-de Boor gives " + ex.str());
    // vanishes outside [t_i, t_{i+p+1}] (independent of the reference recursion)
    for (auto &kv : A[i].pc)
      if (K.grid[kv.first] < K.t[i] || K.grid[kv.first + 1] > K.t[i + p + 1]) H.fail("support", "B_" + std::to_string(i) + " is non-zero outside [t_i, t_{i+p+1}]");
  }
  // partition of unity on every interval inside [t_p, t_{m-p-1}]
  if (m >= 2 * p + 2) {
    for (size_t j = 0; j + 1 < g; j++) {
      if (K.grid[j] < K.t[p] || K.grid[j + 1] > K.t[m - p - 1]) continue;
      Poly sum;
      for (auto &a : A) sum = padd(sum, a.get(j));
      if (sum != Poly{mpq_class(1)}) H.fail("partition-of-unity", "sum on interval " + std::to_string(j) + " is " + pstr(sum));
      H.count("unity_intervals");
    }
  }
  // C^{p-mu} across a knot of multiplicity mu (one-sided derivatives of the library's pieces)
  for (size_t j = 0; j < g; j++) {
    if (K.mult[j] > p) continue;
    size_t dmax = p - K.mult[j];
    for (size_t i = 0; i < A.size(); i++) {
      Poly L = j > 0 ? A[i].get(j - 1) : Poly{}, R = j + 1 < g ? A[i].get(j) : Poly{};
      for (size_t d = 0; d <= dmax; d++) {
        if (peval(pderiv(L, d), K.grid[j]) != peval(pderiv(R, d), K.grid[j]))
          H.fail("continuity", "B_" + std::to_string(i) + ": derivative " + std::to_string(d) + " jumps at knot " + K.grid[j].get_str() + " of multiplicity " + std::to_string(K.mult[j]));
        H.count("continuity_conditions");
      }
    }
  }
  size_t mu_max = 0;
  for (auto x : K.mult) mu_max = std::max(mu_max, x);
  bool interior_rep = false, left_rep = K.mult.front() > 1, right_rep = K.mult.back() > 1;
  for (size_t j = 1; j + 1 < g; j++) interior_rep = interior_rep || K.mult[j] > 1;
  H.cls(std::string("valid:") + (r0.empty() ? "zero-functions" : "functions") + (interior_rep ? ":interior-repeat" : "") + (left_rep ? ":left-repeat" : "") + (right_rep ? ":right-repeat" : "") + (mu_max > p + 1 ? ":mult>p+1" : ""));
  if (!r0.empty()) H.nontriv();
  H.end();
}

// ---- floating-point route: strongly graded (but well conditioned) knot vectors ----------------------------
// "every scalar type": the exact run above cannot see defects that only exist for floating types (tolerances,
// epsilon-based comparisons). Knots are partial sums of non-decreasing dyadic widths starting at 0, so every
// knot is of the size of the neighbouring widths and the midpoint coefficients are computed without cancellation;
// every generated coefficient must agree with the exact one to a relative 2^-20 (float 2^-10) of the largest
// coefficient magnitude of that degree on the interval.
template <class FT, size_t p>
static void float_case(Harness &H, const char *tn, const std::vector<mpq_class> &g, const std::vector<size_t> &mult, const std::string &d0, double reltol) {
  std::vector<mpq_class> t;
  for (size_t i = 0; i < g.size(); i++)
    for (size_t r = 0; r < mult[i]; r++) t.push_back(g[i]);
  if (t.size() < p + 2) return;
  if (!H.take()) return;
  H.begin(std::string(tn) + ";p=" + std::to_string(p) + ";" + d0);
  std::vector<Spline<FT, p>> bs, bs2;
  Outcome oc = attempt([&] {
    bs = bspline::generateBSplines<p>(to_s<FT>(t));
    bspline::BSplineGenerator<FT> gen(to_s<FT>(t), mkgrid<FT>(g));
    bs2 = gen.template generateBSplines<p>();
  });
  if (oc.threw()) { H.fail("float:threw", "valid graded knot vector refused: " + oc.str()); H.end(); return; }
  if (bs.size() != t.size() - p - 1 || bs2.size() != bs.size()) { H.fail("float:count", "wrong number of functions"); H.end(); return; }
  for (size_t i = 0; i < bs.size(); i++) {
    RefPP ex = ref_bspline(t, g, i, p);
    const auto &sup = bs[i].getSupport();
    if (!(bs[i] == bs2[i])) H.fail("float:route-differs", "construction routes differ");
    for (size_t j = 0; j + 1 < g.size(); j++) {
      auto ec = pabout(ex.get(j), (g[j] + g[j + 1]) / 2, p + 1);
      bool stored = j >= sup.getStartIndex() && j + 1 < sup.getEndIndex();
      for (size_t k = 0; k <= p; k++) {
        double e = ec[k].get_d(), f = stored ? (double)bs[i].getCoefficients()[j - sup.getStartIndex()][k] : 0.0;
        // scale: largest exact coefficient of this degree over all functions on this interval is of order width^-k
        double scale = 1.0;
        mpq_class w = g[j + 1] - g[j];
        for (size_t q = 0; q < k; q++) scale /= w.get_d();
        if (!(std::fabs(f - e) <= reltol * scale * 64)) {
          H.fail("float:coefficient", "B_{" + std::to_string(i) + "," + std::to_string(p) + "} interval " + std::to_string(j) + " degree " + std::to_string(k) + ": got " + std::to_string(f) + " exact " + std::to_string(e) + " (scale " + std::to_string(scale) + ")");
          j = g.size();
          break;
        }
      }
    }
  }
  H.cls(std::string("float:") + tn);
  H.nontriv();
  H.end();
}
template <class FT>
static void float_route(Harness &H, const char *tn, const std::vector<mpq_class> &widths, double reltol) {
  // all non-decreasing width sequences of length 1..4 over the alphabet, multiplicity patterns: simple / one double knot
  size_t W = widths.size();
  for (size_t len = 1; len <= 4; len++) {
    std::vector<size_t> ix(len, 0);
    while (true) {
      bool nondecr = true;
      for (size_t i = 0; i + 1 < len; i++) nondecr = nondecr && ix[i] <= ix[i + 1];
      if (nondecr) {
        std::vector<mpq_class> g{mpq_class(0)};
        std::string d0 = "widths=";
        for (size_t i : ix) { g.push_back(g.back() + widths[i]); d0 += widths[i].get_str() + ","; }
        for (size_t dbl = 0; dbl <= g.size(); dbl++) {  // dbl == g.size(): all simple
          std::vector<size_t> mult(g.size(), 1);
          if (dbl < g.size()) mult[dbl] = 2;
          std::string d1 = d0 + ";double-knot=" + (dbl < g.size() ? std::to_string(dbl) : "none");
          float_case<FT, 0>(H, tn, g, mult, d1, reltol);
          float_case<FT, 1>(H, tn, g, mult, d1, reltol);
          float_case<FT, 2>(H, tn, g, mult, d1, reltol);
          float_case<FT, 3>(H, tn, g, mult, d1, reltol);
        }
      }
      size_t k = 0;
      while (k < len && ++ix[k] == W) ix[k++] = 0;
      if (k == len) break;
    }
  }
}

static void run(Harness &H) {
  {
    auto p2 = [](long e) { mpq_class r(1); for (long i = 0; i < (e < 0 ? -e : e); i++) r *= 2; return e < 0 ? mpq_class(1 / r) : r; };
    float_route<double>(H, "double", {p2(-60), p2(-40), p2(-20), p2(0), p2(10)}, 1.0 / 1048576);
    float_route<float>(H, "float", {p2(-30), p2(-15), p2(0), p2(6)}, 1.0 / 1024);
    float_route<long double>(H, "long double", {p2(-70), p2(-35), p2(0)}, 1.0 / 1048576);
  }
  // reference self-check: reference B-splines of a simple knot vector sum to one
  {
    std::vector<mpq_class> t = {mq(0), mq(1), mq(3), mq(4), mq(6), mq(7), mq(9)};
    for (size_t j = 2; j < 4; j++) {
      Poly sum;
      for (size_t i = 0; i + 3 < t.size(); i++) sum = padd(sum, ref_bspline(t, t, i, 2).get(j));
      if (sum != Poly{mpq_class(1)}) { fprintf(stderr, "reference self-check failed\n"); exit(3); }
    }
  }
  // long knot vectors (size as an alphabet): 20 and 45 knots with a repeating multiplicity pattern
  for (size_t m : std::vector<size_t>{20, 45}) {
    for (int patt = 0; patt < 3; patt++) {
      Knots K;
      mpq_class x = mq(-3);
      size_t cnt = 0, gi = 0;
      while (cnt < m) {
        size_t mu = patt == 0 ? 1 : patt == 1 ? 1 + (gi % 3 == 1) : 1 + (gi % 4);
        mu = std::min(mu, m - cnt);
        K.grid.push_back(x);
        K.mult.push_back(mu);
        for (size_t r = 0; r < mu; r++) K.t.push_back(x);
        cnt += mu;
        x += (gi % 2 ? mq(1, 2) : mq(3, 4)) + mq((long)(gi % 3), 5);
        gi++;
      }
      K.desc = "long;m=" + std::to_string(m) + ";pattern" + std::to_string(patt);
      one<1>(H, K);
      one<2>(H, K);
      one<3>(H, K);
      if (H.thorough()) { one<4>(H, K); one<5>(H, K); }
    }
  }
  std::vector<mpq_class> gaps = H.thorough() ? std::vector<mpq_class>{mq(1), mq(1, 2), mq(3)} : std::vector<mpq_class>{mq(1), mq(1, 2)};
  std::vector<mpq_class> offs = {mq(0), mq(-7, 2), mq(100)};
  size_t M = H.thorough() ? 9 : 7;
  bool th = H.thorough();
  all_knots(M, gaps, offs, [&](const Knots &K) {
    one<0>(H, K);
    one<1>(H, K);
    one<2>(H, K);
    one<3>(H, K);
    one<4>(H, K);
    if (th) {
      one<5>(H, K);
      one<6>(H, K);
    }
  });
}

int main(int argc, char **argv) {
  Harness H("C01", argc, argv);
  run(H);
  return H.finish();
}
