// C07: linear forms equal the exact integral and agree with the bilinear form.
#include "oplist.h"
using namespace vf;
using S = vf::DefaultScalar;
using OL = OpList<S>;
using bspline::integration::BilinearForm;
using bspline::integration::LinearForm;

#ifndef VF_OPS
#define VF_OPS 0, 1, 2, 3, 4, 5, 6, 7, 8
#endif
#ifndef VF_XOPS
#define VF_XOPS 0, 1, 3, 7
#endif
static constexpr int OPS[] = {VF_OPS};
static constexpr size_t NOPS = sizeof(OPS) / sizeof(OPS[0]);
static constexpr int XOPS[] = {VF_XOPS};
static constexpr size_t NXOPS = sizeof(XOPS) / sizeof(XOPS[0]);

template <int I, size_t o>
static void lf_cases(Harness &H, const std::string &d0, const Grid<S> &g, const std::vector<mpq_class> &pts, size_t n) {
  using O = typename OL::template Op<I>;
  std::vector<Win> FW = O::hasV ? factor_windows(n) : std::vector<Win>{Win{0, 0}};
  for (Win fw : FW) {
    auto v = mkspline_p<S, 1>(g, fw, fw.nint() ? fw.nint() * 2 + 1 : 0);
    RefPP rv = alpha(v);
    AstP ast = O::ast(&rv);
    for (Win a : windows(n)) {
      size_t K = a.nint() * (o + 1);
      for (size_t p = 0; p < npatterns(K); p++) {
        if (!H.take()) continue;
        H.begin(d0 + ";LF;" + O::name + ";o" + std::to_string(o) + (O::hasV ? ";v=" + wstr(fw) : "") + ";" + wstr(a) + ":" + pname(K, p));
        auto sa = mkspline_p<S, o>(g, a, p);
        RefPP ra = alpha(sa);
        mpq_class ex = rinteg(ref_apply(*ast, ra), pts), got;
        Outcome oc = attempt([&] { got = val(LinearForm{O::make(v)}(sa)); });
        if (oc.threw()) H.fail("linear:threw", oc.str());
        else if (got != ex) H.fail("linear", std::string("<") + O::name + " a> = " + got.get_str() + ", exact integral = " + ex.get_str() + " for a=" + dump(sa) + " v=" + dump(v));
        if constexpr (I == 0) {
          mpq_class d = val(LinearForm{}.evaluate(sa));
          if (d != ex) H.fail("linear:default", "default-constructed LinearForm differs");
        }
        if (a.nint() == 0 && !oc.threw() && got != 0) H.fail("linear:interval-free", "non-zero for an interval-free spline");
        if (alpha(sa) != ra) H.fail("operand-changed", "operand changed");
        H.cls(std::string("LF:") + a.kind() + ":outsize" + (o % 2 ? "even" : "odd"));
        if (ex != 0) H.nontriv();
        H.end();
      }
    }
  }
}

// BilinearForm{O1,O2}(a,b) == LinearForm{}((O1*a)*(O2*b))
template <int I, int J, size_t oa, size_t ob>
static void cross_cases(Harness &H, const std::string &d0, const Grid<S> &g, size_t n) {
  using O1 = typename OL::template Op<I>;
  using O2 = typename OL::template Op<J>;
  std::vector<Win> FW = (O1::hasV || O2::hasV) ? factor_windows(n) : std::vector<Win>{Win{0, 0}};
  for (Win fw : FW) {
    auto v = mkspline_p<S, 1>(g, fw, fw.nint() ? fw.nint() * 2 + 1 : 0);
    for (Win a : windows(n))
      for (Win b : windows(n)) {
        size_t Ka = a.nint() * (oa + 1), Kb = b.nint() * (ob + 1);
        for (int pv = 0; pv < 3; pv++) {
          if (!H.take()) continue;
          size_t pa = Ka ? (pv == 0 ? Ka + 1 : pv == 1 ? Ka + 2 : (Ka - 1)) : 0, pb = Kb ? (pv == 0 ? Kb + 2 : pv == 1 ? Kb + 1 : 0) : 0;
          H.begin(d0 + ";BFvsLF;" + O1::name + "|" + O2::name + ";o" + std::to_string(oa) + "," + std::to_string(ob) + ((O1::hasV || O2::hasV) ? ";v=" + wstr(fw) : "") + ";" + wstr(a) + ":" + pname(Ka, pa) + ";" + wstr(b) + ":" + pname(Kb, pb));
          auto sa = mkspline_p<S, oa>(g, a, pa);
          auto sb = mkspline_p<S, ob>(g, b, pb);
          mpq_class bf, lf;
          Outcome oc = attempt([&] {
            bf = val(BilinearForm{O1::make(v), O2::make(v)}(sa, sb));
            lf = val(LinearForm{}((O1::make(v) * sa) * (O2::make(v) * sb)));
          });
          if (oc.threw()) H.fail("cross:threw", oc.str());
          else if (bf != lf) H.fail("cross", "bilinear form " + bf.get_str() + " != linear form of the product " + lf.get_str());
          H.cls("cross");
          if (bf != 0) H.nontriv();
          H.end();
        }
      }
  }
}

// long supports (size as an alphabet)
static void large_cases(Harness &H) {
  for (size_t n : std::vector<size_t>{34, 67}) {
    auto pts = grid_family("uni", n);
    for (size_t i = 0; i < n; i++) pts[i] = pts[i] * pts[i] / mpq_class((long)n) + pts[i] / 3 - 5;
    Grid<S> g = mkgrid<S>(pts);
    auto v = mkspline_p<S, 1>(g, Win{3, n - 4}, (n - 8) * 2 + 1);
    RefPP rv = alpha(v);
    for (Win w : {Win{0, n}, Win{1, n - 1}, Win{n / 2 - 1, n}, Win{0, n / 2 + 2}})
      for (int kind = 0; kind < 3; kind++) {
        if (!H.take()) continue;
        static const char *kn[] = {"I", "X2", "V*Dx1"};
        H.begin("large" + std::to_string(n) + ";LF;" + kn[kind] + ";o3;" + wstr(w));
        auto sa = mkspline_p<S, 3>(g, w, w.nint() * 4 + 1);
        AstP a1 = kind == 0 ? aI() : kind == 1 ? aX(2) : aProd(aV(&rv), aD(1));
        mpq_class ex = rinteg(ref_apply(*a1, alpha(sa)), pts), got, bf;
        Outcome oc = attempt([&] {
          if (kind == 0) { got = val(LinearForm{}(sa)); }
          else if (kind == 1) { got = val(LinearForm{X<2>{}}(sa)); }
          else { got = val(LinearForm{SplineOperator{v} * Dx<1>{}}(sa)); }
          bf = val(BilinearForm{X<1>{}, Dx<1>{}}(sa, v));
          mpq_class lf = val(LinearForm{}((X<1>{} * sa) * (Dx<1>{} * v)));
          if (bf != lf) H.fail("cross", "bilinear form != linear form of the product on long supports");
        });
        if (oc.threw()) H.fail("linear:threw", oc.str());
        else if (got != ex) H.fail("linear", std::string(kn[kind]) + " on a long support gives " + got.get_str() + ", exact integral = " + ex.get_str());
        H.cls("large");
        if (ex != 0) H.nontriv();
        H.end();
      }
  }
}

// high orders (products of the order-10 example bases have order 20, their products with operators more): kernels whose
// integer arithmetic on the coefficient index (shifts, factorials, powers) overflows only for long coefficient arrays
static void high_order_cases(Harness &H) {
  size_t n = 3;
  auto pts = grid_family("nonuni", n);
  Grid<S> g = mkgrid<S>(pts);
  for_idx(std::index_sequence<11, 20, 27, 28, 29, 33, 40>{}, [&](auto OO) {
    lf_cases<0, decltype(OO)::value>(H, "high:nonuni3", g, pts, n);
    lf_cases<2, decltype(OO)::value>(H, "high:nonuni3", g, pts, n);
  });
  // bilinear form of two order-14 / order-20 splines against the linear form of the product (29 / 41 coefficients)
  for (Win a : {Win{0, 3}, Win{1, 3}})
    for (int pv = 0; pv < 3; pv++) {
      if (!H.take()) continue;
      H.begin(std::string("high:cross;o14,14;o20,20;") + wstr(a) + ";pv" + std::to_string(pv));
      size_t K14 = a.nint() * 15, K20 = a.nint() * 21;
      auto s14 = mkspline_p<S, 14>(g, a, pv == 0 ? K14 + 1 : pv == 1 ? K14 + 2 : K14 - 1), t14 = mkspline_p<S, 14>(g, Win{0, 3}, pv == 2 ? 14 : 30 + 2);
      auto s20 = mkspline_p<S, 20>(g, a, pv == 0 ? K20 + 2 : pv == 1 ? K20 + 1 : K20 - 1), t20 = mkspline_p<S, 20>(g, Win{0, 3}, pv == 2 ? 20 : 42 + 1);
      Outcome oc = attempt([&] {
        mpq_class ex14 = rinteg(rmul(alpha(s14), alpha(t14)), pts), ex20 = rinteg(rmul(rmulx(alpha(s20), 1), alpha(t20)), pts);
        mpq_class bf14 = val(BilinearForm{}(s14, t14)), lf14 = val(LinearForm{}(s14 * t14));
        mpq_class bf20 = val(BilinearForm{X<1>{}, IdentityOperator{}}(s20, t20)), lf20 = val(LinearForm{X<1>{}}(s20 * t20));
        if (bf14 != ex14 || bf20 != ex20) H.fail("bilinear", "high-order bilinear form differs from the exact integral");
        if (lf14 != ex14 || lf20 != ex20) H.fail("linear", "linear form of a high-order product (29 / 42 coefficients) = " + lf14.get_str() + " / " + lf20.get_str() + ", exact " + ex14.get_str() + " / " + ex20.get_str());
        if (ex14 != 0) H.nontriv();
      });
      if (oc.threw()) H.fail("linear:threw", oc.str());
      H.cls("high-order");
      H.end();
    }
}

static void run(Harness &H) {
  large_cases(H);
  high_order_cases(H);
  size_t n = 5;
  std::vector<std::string> fams = H.thorough() ? std::vector<std::string>{"nonuni", "far", "neg", "sym"} : std::vector<std::string>{"nonuni", "far", "sym"};
  for (auto fam : fams) {
    auto pts = grid_family(fam, n);
    Grid<S> g = mkgrid<S>(pts);
    std::string d0 = fam + std::to_string(n);
    for_idx(std::make_index_sequence<NOPS>{}, [&](auto II) {
      for_idx(std::make_index_sequence<5>{}, [&](auto OO) { lf_cases<OPS[decltype(II)::value], decltype(OO)::value>(H, d0, g, pts, n); });
    });
    if (fam != "nonuni") continue;
    for_idx(std::make_index_sequence<NXOPS>{}, [&](auto II) {
      for_idx(std::make_index_sequence<NXOPS>{}, [&](auto JJ) {
        for_idx(std::make_index_sequence<3>{}, [&](auto A) {
          for_idx(std::make_index_sequence<3>{}, [&](auto B) {
            cross_cases<XOPS[decltype(II)::value], XOPS[decltype(JJ)::value], decltype(A)::value, decltype(B)::value>(H, d0, g, n);
          });
        });
      });
    });
  }
}

int main(int argc, char **argv) {
  Harness H("C07", argc, argv);
  run(H);
  return H.finish();
}
