// C17: numerical quadrature matches the analytic forms where Gauss-Legendre is
// exact (2n-1 >= order1+order2+d), extends over exactly the common intervals.
#include <bspline/integration/numerical.h>

#include <cmath>
#include <cstring>

#include "lib.h"
using namespace vf;
using namespace bspline::operators;
using bspline::integration::BilinearForm;

template <class T>
static mpq_class ex(const T &v) {
  if constexpr (std::is_same_v<T, long double>) {
    double hi = (double)v;
    double lo = (double)(v - (long double)hi);
    return mpq_class(hi) + mpq_class(lo);
  } else {
    return mpq_class((double)v);
  }
}

static const std::vector<mpq_class> CUBIC = {mq(2), mq(-1), mq(3), mq(-1, 2)};  // 2 - x + 3x^2 - x^3/2

template <class T, size_t d>
struct Weight {
  static T f(const T &x) {
    if constexpr (d != 4) {
      T r = 1;
      for (size_t i = 0; i < d; i++) r *= x;
      return r;
    } else {
      return T(2) - x + T(3) * x * x - x * x * x / T(2);
    }
  }
  static constexpr size_t degree = d != 4 ? d : 3;   // d == 4 stands for the generic cubic; 5 and 6 are x^5, x^6
  static Poly poly() {
    if constexpr (d != 4) {
      Poly p(d + 1, mpq_class(0));
      p[d] = 1;
      return p;
    } else {
      return CUBIC;
    }
  }
  template <size_t oa, size_t ob>
  static T analytic(const Spline<T, oa> &a, const Spline<T, ob> &b) {
    if constexpr (d == 0) return BilinearForm{IdentityOperator{}}(a, b);
    else if constexpr (d != 4) return BilinearForm{X<d>{}}(a, b);
    else return BilinearForm{(T(2) - X<1>{}) + T(3) * X<2>{} - X<3>{} / T(2)}(a, b);
  }
};

template <class T, size_t n, size_t d, size_t oa, size_t ob>
static void cases(Harness &H, const char *tn, const std::string &d0, const Grid<T> &g, const std::vector<mpq_class> &pts) {
  using W = Weight<T, d>;
  const mpq_class eps = ex<T>(std::numeric_limits<T>::epsilon()), K20(1048576);
  const bool exactq = 2 * n - 1 >= oa + ob + W::degree;
  size_t N = pts.size();
  Poly wp = W::poly();
  for (Win a : windows(N))
    for (Win b : windows(N)) {
      size_t Ka = a.nint() * (oa + 1), Kb = b.nint() * (ob + 1);
      int npat = H.thorough() ? 4 : 3;
      for (int pv = 0; pv < npat; pv++) {
        if (!H.take()) continue;
        size_t pa = Ka ? (pv == 0 ? Ka + 1 : pv == 1 ? Ka - 1 : pv == 2 ? 0 : Ka / 2) : 0;
        size_t pb = Kb ? (pv == 0 ? Kb + 1 : pv == 1 ? 0 : pv == 2 ? Kb - 1 : Kb + 1) : 0;
        H.begin(std::string(tn) + ";" + d0 + ";n=" + std::to_string(n) + ";d=" + (d != 4 ? std::to_string(d) : "cubic") + ";o" + std::to_string(oa) + "," + std::to_string(ob) + ";" + wstr(a) + ":" + pname(Ka, pa) + ";" + wstr(b) + ":" + pname(Kb, pb));
        auto sa = mkspline_p<T, oa>(g, a, pa);
        auto sb = mkspline_p<T, ob>(g, b, pb);
        // exact reference and magnitude over the common intervals
        RefPP ra, rb;
        {
          auto fa = pattern(Ka, pa), fb = pattern(Kb, pb);
          for (size_t i = 0; i < a.nint(); i++) ra.set(a.s + i, pexpand(std::vector<mpq_class>(fa.begin() + i * (oa + 1), fa.begin() + (i + 1) * (oa + 1)), (pts[a.s + i] + pts[a.s + i + 1]) / 2));
          for (size_t i = 0; i < b.nint(); i++) rb.set(b.s + i, pexpand(std::vector<mpq_class>(fb.begin() + i * (ob + 1), fb.begin() + (i + 1) * (ob + 1)), (pts[b.s + i] + pts[b.s + i + 1]) / 2));
        }
        mpq_class exact = 0, mag = 0;
        bool common = false;
        {
          auto fa = pattern(Ka, pa), fb = pattern(Kb, pb);
          for (size_t i = a.s; i + 1 < a.e; i++) {
            if (!(i >= b.s && i + 1 < b.e)) continue;
            common = true;
            exact += pinteg(pmul(pmul(ra.get(i), rb.get(i)), wp), pts[i], pts[i + 1]);
            mpq_class h = (pts[i + 1] - pts[i]) / 2, sa_ = 0, sb_ = 0, pw = 1;
            for (size_t k = 0; k <= oa; k++) { sa_ += abs(fa[(i - a.s) * (oa + 1) + k]) * pw; pw *= h; }
            pw = 1;
            for (size_t k = 0; k <= ob; k++) { sb_ += abs(fb[(i - b.s) * (ob + 1) + k]) * pw; pw *= h; }
            mpq_class xmax = std::max(mpq_class(abs(pts[i])), mpq_class(abs(pts[i + 1]))), fmax = 0;
            pw = 1;
            for (size_t k = 0; k < wp.size(); k++) { fmax += abs(wp[k]) * pw; pw *= xmax; }
            mag += 2 * h * sa_ * sb_ * fmax;
          }
        }
        T num = 0, ana = 0;
        Outcome oc = attempt([&] {
          num = bspline::integration::integrate<n>([](const T &x) { return W::f(x); }, sa, sb);
          ana = W::template analytic<oa, ob>(sa, sb);
        });
        if (oc.threw()) { H.fail("threw", oc.str()); H.end(); continue; }
        if constexpr (oa == ob) {
          if (a == b && pa == pb) {  // the same object as both arguments must give the same number as two equal objects
            T self = bspline::integration::integrate<n>([](const T &x) { return W::f(x); }, sa, sa);
            T two = bspline::integration::integrate<n>([](const T &x) { return W::f(x); }, sa, Spline<T, oa>(sa));
            if (std::memcmp(&self, &two, std::is_same_v<T, long double> ? 10 : sizeof(T)) != 0) H.fail("same-object", "integrate(f, a, a) differs from integrate(f, a, copy of a)");
            H.cls("same-object");
          }
        }
        mpq_class qn = ex<T>(num), qa = ex<T>(ana);
        if (!common) {
          if (qn != 0) H.fail("nocommon", "numerical integral " + std::to_string((double)num) + " without a common interval");
          H.cls("nocommon");
        } else {
          mpq_class bound = K20 * eps * mag;
          if (abs(qa - exact) > bound) H.fail("analytic", "analytic form deviates from the exact integral by " + std::to_string(mpq_class(abs(qa - exact)).get_d()) + " > " + std::to_string(bound.get_d()));
          if (exactq) {
            mpq_class err = abs(qn - exact);
            if (err > bound) H.fail("quadrature", std::to_string(n) + "-point quadrature = " + std::to_string((double)num) + ", exact integral = " + std::to_string(exact.get_d()) + " (analytic form " + std::to_string((double)ana) + "), error " + std::to_string(err.get_d()) + " > bound " + std::to_string(bound.get_d()));
            if (mag > 0) {
              long r = (long)(mpq_class(err / (eps * mag)).get_d() * 1000);
              H.counters["max:err_over_eps_mag_x1000"] = std::max(H.counters["max:err_over_eps_mag_x1000"], r);
            }
            H.cls("exact-regime");
            if (exact != 0) H.nontriv();
          } else {
            // nothing is required below the exactness bound; record that the comparison can fail
            if (abs(qn - exact) > bound) H.count("inexact_regime_differs");
            H.cls("inexact-regime");
          }
        }
        H.end();
      }
    }
}

template <class T, size_t n, size_t d>
static void per_nd(Harness &H, const char *tn, const std::string &d0, const Grid<T> &g, const std::vector<mpq_class> &pts, bool th) {
  cases<T, n, d, 0, 0>(H, tn, d0, g, pts);
  cases<T, n, d, 0, 1>(H, tn, d0, g, pts);
  cases<T, n, d, 1, 0>(H, tn, d0, g, pts);
  cases<T, n, d, 1, 1>(H, tn, d0, g, pts);
  cases<T, n, d, 2, 1>(H, tn, d0, g, pts);
  cases<T, n, d, 0, 2>(H, tn, d0, g, pts);
  cases<T, n, d, 2, 2>(H, tn, d0, g, pts);
  if (th) {
    cases<T, n, d, 1, 2>(H, tn, d0, g, pts);
    cases<T, n, d, 2, 0>(H, tn, d0, g, pts);
    cases<T, n, d, 3, 0>(H, tn, d0, g, pts);
    cases<T, n, d, 1, 3>(H, tn, d0, g, pts);
    cases<T, n, d, 3, 2>(H, tn, d0, g, pts);
    cases<T, n, d, 3, 3>(H, tn, d0, g, pts);
  }
}
template <class T, size_t n>
static void per_n(Harness &H, const char *tn, const std::string &d0, const Grid<T> &g, const std::vector<mpq_class> &pts, bool th) {
  per_nd<T, n, 0>(H, tn, d0, g, pts, th);
  per_nd<T, n, 1>(H, tn, d0, g, pts, th);
  per_nd<T, n, 2>(H, tn, d0, g, pts, th);
  per_nd<T, n, 3>(H, tn, d0, g, pts, th);
  per_nd<T, n, 4>(H, tn, d0, g, pts, th);
  if constexpr (n >= 4) {  // weights of degree 5 and 6 (exact from n = 4 resp. 6 for low orders)
    per_nd<T, n, 5>(H, tn, d0, g, pts, th);
    per_nd<T, n, 6>(H, tn, d0, g, pts, th);
  }
}
template <class T>
static void per_type(Harness &H, const char *tn) {
  bool th = H.thorough();
  for (int gi = 0; gi < 2; gi++) {
    auto all = grid_family("dyad", 10);
    std::vector<mpq_class> pts(all.begin() + (gi ? 5 : 0), all.begin() + (gi ? 10 : 5));
    Grid<T> g = mkgrid<T>(pts);
    std::string d0 = gi ? "dyad-hi5" : "dyad-lo5";
#ifdef VF_N
    per_n<T, VF_N>(H, tn, d0, g, pts, th);
#else
    per_n<T, 2>(H, tn, d0, g, pts, th);
#endif
  }
}

int main(int argc, char **argv) {
  Harness H("C17", argc, argv);
#ifdef VF_LONG_DOUBLE
  per_type<long double>(H, "long double");
#else
  per_type<double>(H, "double");
#endif
  return H.finish();
}
