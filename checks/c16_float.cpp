// C16: floating-point results stay at rounding level of the exact result.
// |fl - exact| <= 2^20 eps mag, mag = sum of absolute values of the terms in the
// midpoint formulation, computed by an independent reference over (value,
// magnitude) pairs of rationals; fl = 0 where mag = 0. A hash of every produced
// bit pattern is reported so that the driver can compare builds with and without
// the optional self-checks.
#include <cmath>
#include <cstring>

#include "lib.h"
using namespace vf;
using namespace bspline::operators;
using bspline::integration::BilinearForm;
using bspline::integration::LinearForm;

// ---- (value, magnitude) arithmetic ---------------------------------------------
struct MQ {
  mpq_class v, m;
  MQ() : v(0), m(0) {}
  MQ(const mpq_class &x) : v(x), m(abs(x)) {}
  MQ(const mpq_class &x, const mpq_class &mm) : v(x), m(mm) {}
};
static MQ operator+(const MQ &a, const MQ &b) { return MQ(a.v + b.v, a.m + b.m); }
static MQ operator-(const MQ &a, const MQ &b) { return MQ(a.v - b.v, a.m + b.m); }
static MQ operator*(const MQ &a, const MQ &b) { return MQ(a.v * b.v, a.m * b.m); }
using MArr = std::vector<MQ>;

template <class FT>
static mpq_class exq(const FT &v) {
  if constexpr (std::is_same_v<FT, long double>) {
    double hi = (double)v;
    double lo = (double)(v - (long double)hi);
    return mpq_class(hi) + mpq_class(lo);
  } else {
    return mpq_class((double)v);
  }
}

// ---- reference formulas in the midpoint representation ---------------------------
static MQ r_eval(const MArr &c, const mpq_class &dx) {
  MQ r, pw(mpq_class(1));
  for (size_t k = 0; k < c.size(); k++) { r = r + c[k] * pw; pw = pw * MQ(dx); }
  return r;
}
static MArr r_add(const MArr &a, const MArr &b) {
  MArr r(std::max(a.size(), b.size()));
  for (size_t i = 0; i < a.size(); i++) r[i] = r[i] + a[i];
  for (size_t i = 0; i < b.size(); i++) r[i] = r[i] + b[i];
  return r;
}
static MArr r_mul(const MArr &a, const MArr &b) {
  MArr r(a.size() + b.size() - 1);
  for (size_t i = 0; i < a.size(); i++)
    for (size_t j = 0; j < b.size(); j++) r[i + j] = r[i + j] + a[i] * b[j];
  return r;
}
static MArr r_dx(const MArr &a, size_t n) {
  if (n >= a.size()) return MArr(1);
  MArr r(a.size() - n);
  for (size_t i = 0; i < r.size(); i++) {
    mpq_class f = 1;
    for (size_t t = i + 1; t <= i + n; t++) f *= mpq_class((long)t);
    r[i] = MQ(f) * a[i + n];
  }
  return r;
}
static mpq_class binom(size_t n, size_t k) {
  mpq_class r = 1;
  for (size_t i = 0; i < k; i++) r = r * mpq_class((long)(n - i)) / mpq_class((long)(i + 1));
  return r;
}
static MArr r_x(const MArr &a, size_t n, const mpq_class &xm) {
  MArr r(a.size() + n);
  for (size_t j = 0; j <= n; j++) {
    MQ p(mpq_class(1));
    for (size_t t = 0; t < n - j; t++) p = p * MQ(xm);
    MQ e = MQ(binom(n, j)) * p;  // coefficient of dx^j in (dx + xm)^n
    for (size_t i = 0; i < a.size(); i++) r[i + j] = r[i + j] + e * a[i];
  }
  return r;
}
static MQ r_linear(const MArr &a, const mpq_class &h) {
  MQ r;
  for (size_t k = 0; k < a.size(); k += 2) {
    MQ pw(mpq_class(2) / mpq_class((long)(k + 1)));
    for (size_t t = 0; t < k + 1; t++) pw = pw * MQ(h);
    r = r + a[k] * pw;
  }
  return r;
}
static MQ r_bilinear(const MArr &a, const MArr &b, const mpq_class &h) { return r_linear(r_mul(a, b), h); }

// ---- comparison bookkeeping --------------------------------------------------------
struct Cmp {
  Harness &H;
  uint64_t hash = 1469598103934665603ull;
  template <class FT>
  void operator()(const char *what, const FT &fl, const MQ &ref, const std::string &ctx) {
    // hash of the produced bit pattern (10 significant bytes for x87 long double)
    unsigned char buf[sizeof(FT)];
    std::memcpy(buf, &fl, sizeof(FT));
    size_t nb = std::is_same_v<FT, long double> ? 10 : sizeof(FT);
    for (size_t i = 0; i < nb; i++) { hash ^= buf[i]; hash *= 1099511628211ull; }
    H.count("comparisons");
    if (!std::isfinite((double)fl)) { H.fail(std::string(what) + ":non-finite", ctx + ": non-finite result"); return; }
    static const mpq_class K20(1048576);
    const mpq_class eps = exq<FT>(std::numeric_limits<FT>::epsilon());
    mpq_class f = exq<FT>(fl), err = abs(f - ref.v);
    if (ref.m == 0) {
      if (f != 0) H.fail(std::string(what) + ":nonzero", ctx + ": result " + std::to_string((double)fl) + " where every term is zero");
      return;
    }
    mpq_class bound = K20 * eps * ref.m;
    if (err > bound) H.fail(what, ctx + ": |" + std::to_string((double)fl) + " - " + std::to_string(ref.v.get_d()) + "| = " + std::to_string(err.get_d()) + " exceeds 2^20 eps mag = " + std::to_string(bound.get_d()) + " (mag " + std::to_string(ref.m.get_d()) + ")");
    long ratio = (long)(mpq_class(err / (eps * ref.m)).get_d() * 1000);
    std::string cn = std::string("max:err_over_eps_mag_x1000:") + what;
    H.counters[cn] = std::max(H.counters[cn], ratio);
  }
};

static void selfcheck(bool ok, const char *what) {
  if (!ok) { fprintf(stderr, "C16 reference self-check failed: %s\n", what); exit(3); }
}

template <class FT> struct TN;
template <> struct TN<float> { static constexpr const char *n = "float"; };
template <> struct TN<double> { static constexpr const char *n = "double"; };
template <> struct TN<long double> { static constexpr const char *n = "long double"; };

template <class FT, size_t o>
static MArr marr(const std::array<FT, o + 1> &a) {
  MArr r;
  for (auto &x : a) r.push_back(MQ(exq<FT>(x)));
  return r;
}

// ---- generation --------------------------------------------------------------------
// reference recursion in midpoint coordinates: B[i] : interval -> MArr
using PW = std::map<size_t, MArr>;
static std::vector<PW> ref_gen(const std::vector<mpq_class> &t, const std::vector<mpq_class> &g, size_t p) {
  std::vector<PW> cur(t.size() - 1);
  for (size_t i = 0; i + 1 < t.size(); i++)
    if (t[i] < t[i + 1])
      for (size_t j = 0; j + 1 < g.size(); j++)
        if (g[j] == t[i]) cur[i][j] = MArr{MQ(mpq_class(1))};
  for (size_t k = 2; k <= p + 1; k++) {  // k = order + 1 of the new functions
    std::vector<PW> nxt(t.size() - k);
    for (size_t i = 0; i + k < t.size(); i++) {
      for (size_t j = 0; j + 1 < g.size(); j++) {
        mpq_class xm = (g[j] + g[j + 1]) / 2;
        MArr acc(k);
        bool any = false;
        if (t[i + k - 1] > t[i] && cur[i].count(j)) {
          MQ pf(mpq_class(1) / (t[i + k - 1] - t[i])), sh(xm - t[i]);
          const MArr &c = cur[i][j];
          for (size_t m = 0; m < c.size(); m++) { acc[m] = acc[m] + pf * sh * c[m]; acc[m + 1] = acc[m + 1] + pf * c[m]; }
          any = true;
        }
        if (t[i + k] > t[i + 1] && cur[i + 1].count(j)) {
          MQ pf(mpq_class(1) / (t[i + k] - t[i + 1])), sh(t[i + k] - xm);
          const MArr &c = cur[i + 1][j];
          for (size_t m = 0; m < c.size(); m++) { acc[m] = acc[m] + pf * sh * c[m]; acc[m + 1] = acc[m + 1] - pf * c[m]; }
          any = true;
        }
        if (any) nxt[i][j] = acc;
      }
    }
    cur.swap(nxt);
  }
  return cur;
}

template <class FT, size_t p>
static void gen_case(Harness &H, Cmp &C, const std::string &d0, const std::vector<mpq_class> &g, const std::vector<size_t> &mult) {
  std::vector<mpq_class> t;
  std::string ms;
  for (size_t i = 0; i < g.size(); i++) { for (size_t r = 0; r < mult[i]; r++) t.push_back(g[i]); ms += std::to_string(mult[i]); }
  if (t.size() < p + 2) return;
  if (!H.take()) return;
  H.begin(std::string(TN<FT>::n) + ";gen;p=" + std::to_string(p) + ";" + d0 + ";mult=" + ms);
  std::vector<Spline<FT, p>> bs;
  Outcome oc = attempt([&] { bs = bspline::generateBSplines<p>(to_s<FT>(t)); });
  if (oc.threw()) { H.fail("gen:threw", oc.str()); H.end(); return; }
  auto ref = ref_gen(t, g, p);
  if (bs.size() != ref.size()) { H.fail("gen:count", "wrong number of functions"); H.end(); return; }
  for (size_t i = 0; i < bs.size(); i++) {
    // reference self-check against the global-basis recursion
    RefPP rp = ref_bspline(t, g, i, p);
    for (auto &kv : ref[i]) {
      auto ex = pabout(rp.get(kv.first), (g[kv.first] + g[kv.first + 1]) / 2, p + 1);
      for (size_t k = 0; k <= p; k++) selfcheck(ex[k] == kv.second[k].v, "midpoint recursion vs global recursion");
    }
    const auto &sup = bs[i].getSupport();
    for (size_t r = 0; r < bs[i].getCoefficients().size(); r++) {
      size_t j = sup.getStartIndex() + r;
      MArr zero(p + 1);
      const MArr &rc = ref[i].count(j) ? ref[i][j] : zero;
      for (size_t k = 0; k <= p; k++) C("gen", bs[i].getCoefficients()[r][k], rc[k], "B_" + std::to_string(i) + " interval " + std::to_string(j) + " coefficient " + std::to_string(k));
    }
    // pieces the library does not store must be zero in the reference
    for (auto &kv : ref[i]) {
      bool stored = kv.first >= sup.getStartIndex() && kv.first + 1 < sup.getEndIndex();
      if (!stored)
        for (auto &c : kv.second)
          if (c.v != 0) H.fail("gen:missing-piece", "B_" + std::to_string(i) + " lacks a non-zero piece");
    }
  }
  // forms ON the generated functions (orders 4..6): their high-order coefficients are naturally tiny next to the low-order
  // ones, which hand-made operands are not. The generated floating-point splines are the (exactly representable)
  // inputs here; the reference integrates exactly those.
  if constexpr (p >= 4) {
    using bspline::integration::BilinearForm;
    using bspline::integration::LinearForm;
    auto arr = [&](const auto &sp, size_t j) -> MArr {  // coefficients of sp on absolute interval j (zeros if not supported)
      const auto &su = sp.getSupport();
      MArr r(sp.getCoefficients().empty() ? 1 : sp.getCoefficients()[0].size());
      if (j >= su.getStartIndex() && j + 1 < su.getEndIndex()) {
        const auto &c = sp.getCoefficients()[j - su.getStartIndex()];
        for (size_t k = 0; k < c.size(); k++) r[k] = MQ(exq<FT>(c[k]));
      }
      return r;
    };
    auto hh = [&](size_t j) -> mpq_class { return (g[j + 1] - g[j]) / 2; };
    auto sum_iv = [&](auto f) { MQ r; for (size_t j = 0; j + 1 < g.size(); j++) r = r + f(j); return r; };
    std::vector<Spline<FT, 0>> b0;
    Outcome o0 = attempt([&] { b0 = bspline::generateBSplines<0>(to_s<FT>(t)); });
    if (o0.threw()) H.fail("gen:threw", "order 0: " + o0.str());
    for (size_t i = 0; i < bs.size(); i++) {
      std::string ci = "B_" + std::to_string(i);
      C("LF:gen", LinearForm{}(bs[i]), sum_iv([&](size_t j) { return r_linear(arr(bs[i], j), hh(j)); }), "LinearForm{}(" + ci + ")");
      for (size_t jj : {i, i + 1, bs.size() - 1}) {
        if (jj >= bs.size()) continue;
        std::string cj = "B_" + std::to_string(jj);
        C("BF:gen:I,I", BilinearForm{}(bs[i], bs[jj]), sum_iv([&](size_t j) { return r_bilinear(arr(bs[i], j), arr(bs[jj], j), hh(j)); }), "<" + ci + "|" + cj + ">");
        C("BF:gen:Dx1,Dx1", BilinearForm{Dx<1>{}, Dx<1>{}}(bs[i], bs[jj]), sum_iv([&](size_t j) { return r_bilinear(r_dx(arr(bs[i], j), 1), r_dx(arr(bs[jj], j), 1), hh(j)); }), "<" + ci + "'|" + cj + "'>");
      }
      for (size_t k = 0; k < b0.size(); k++) {
        if (b0[k].getCoefficients().empty() || !bs[i].checkOverlap(b0[k])) continue;
        std::string ck = "B0_" + std::to_string(k);
        C("BF:gen:p,0", BilinearForm{}(bs[i], b0[k]), sum_iv([&](size_t j) { return r_bilinear(arr(bs[i], j), arr(b0[k], j), hh(j)); }), "<" + ci + "|" + ck + ">");
        C("BF:gen:0,p", BilinearForm{}(b0[k], bs[i]), sum_iv([&](size_t j) { return r_bilinear(arr(b0[k], j), arr(bs[i], j), hh(j)); }), "<" + ck + "|" + ci + ">");
      }
    }
  }
  H.cls("gen:p" + std::to_string(p));
  H.nontriv();
  H.end();
}

// ---- operations on splines with small dyadic coefficients ----------------------------------
// sc: overall power-of-two scale of the coefficients (exact), so that thresholds with an ABSOLUTE tolerance show up
template <class FT, size_t o>
static Spline<FT, o> dy_spline(const Grid<FT> &g, Win w, int variant, int sc = 0) {
  std::vector<std::array<FT, o + 1>> c(w.nint());
  for (size_t i = 0; i < w.nint(); i++)
    for (size_t k = 0; k <= o; k++) {
      // numerators with enough bits that products and sums really round in FT, yet exactly representable
      constexpr int bits = std::is_same_v<FT, float> ? 20 : std::is_same_v<FT, double> ? 45 : 55;
      uint64_t z = (uint64_t)(i * 7 + k * 3 + variant * 5 + 1) * 0x9E3779B97F4A7C15ull;
      z ^= z >> 29;
      z *= 0xBF58476D1CE4E5B9ull;
      z ^= z >> 32;
      int64_t num = (int64_t)(z & (((uint64_t)1 << bits) - 1)) - ((int64_t)1 << (bits - 1));
      c[i][k] = static_cast<FT>(num) / static_cast<FT>((int64_t)1 << (bits - 2));  // |c| <= 2
      if (sc) c[i][k] = std::ldexp(c[i][k], sc);
    }
  return Spline<FT, o>(Support<FT>(g, w.s, w.e), std::move(c));
}

template <class FT, size_t oa, size_t ob>
static void op_case(Harness &H, Cmp &C, const std::string &d0, const std::vector<mpq_class> &g, Win wa, Win wb, int sc = 0) {
  if (!H.take()) return;
  H.begin(std::string(TN<FT>::n) + ";ops;o" + std::to_string(oa) + "," + std::to_string(ob) + ";" + d0 + ";" + wstr(wa) + ";" + wstr(wb) + (sc ? ";coefficients*2^" + std::to_string(sc) : ""));
  Grid<FT> G = mkgrid<FT>(g);
  auto a = dy_spline<FT, oa>(G, wa, 0, sc);
  auto b = dy_spline<FT, ob>(G, wb, 1, -sc / 2);
  auto ivl = [&](const auto &s, size_t j) -> long {  // relative index of absolute interval j, -1 if none
    const auto &sp = s.getSupport();
    return (j >= sp.getStartIndex() && j + 1 < sp.getEndIndex()) ? (long)(j - sp.getStartIndex()) : -1;
  };
  auto refarr = [&](const auto &s, size_t j, size_t size) {
    long r = ivl(s, j);
    MArr z(size);
    if (r < 0) return z;
    MArr m;
    for (auto &x : s.getCoefficients()[r]) m.push_back(MQ(exq<FT>(x)));
    return m;
  };
  // compare a result spline with a per-interval reference
  auto cmp_spline = [&](const char *what, const auto &res, auto reff) {
    for (size_t j = 0; j + 1 < g.size(); j++) {
      MArr ex = reff(j);
      long r = ivl(res, j);
      if (r < 0) {
        for (auto &e : ex)
          if (e.v != 0) H.fail(std::string(what) + ":missing-piece", "result lacks a non-zero piece on interval " + std::to_string(j));
        continue;
      }
      const auto &rc = res.getCoefficients()[r];
      for (size_t k = 0; k < rc.size(); k++) C(what, rc[k], k < ex.size() ? ex[k] : MQ(), std::string(what) + " interval " + std::to_string(j) + " coefficient " + std::to_string(k));
    }
  };
  auto xm = [&](size_t j) { return mpq_class((g[j] + g[j + 1]) / 2); };
  auto hh = [&](size_t j) { return mpq_class((g[j + 1] - g[j]) / 2); };
  Outcome oc = attempt([&] {
    // evaluation at exactly representable points
    for (size_t j = 0; j + 1 < g.size(); j++)
      for (int q = 0; q <= 4; q++) {
        mpq_class x = g[j] + (g[j + 1] - g[j]) * mq(q, 4);
        if (ivl(a, j) < 0 || (q == 0 && ivl(a, j - 1) >= 0 && j > 0) ) continue;  // shared grid points: the left piece is not the one evaluated
        if (q == 4 && ivl(a, j + 1) >= 0) continue;
        C("eval", a(static_cast<FT>(x.get_d())), r_eval(refarr(a, j, oa + 1), x - xm(j)), "a(" + x.get_str() + ")");
      }
    cmp_spline("add", a + b, [&](size_t j) { return r_add(refarr(a, j, oa + 1), refarr(b, j, ob + 1)); });
    cmp_spline("mul", a * b, [&](size_t j) { return r_mul(refarr(a, j, oa + 1), refarr(b, j, ob + 1)); });
    cmp_spline("Dx1", Dx<1>{} * a, [&](size_t j) { return r_dx(refarr(a, j, oa + 1), 1); });
    cmp_spline("Dx2", Dx<2>{} * a, [&](size_t j) { return r_dx(refarr(a, j, oa + 1), 2); });
    cmp_spline("X1", X<1>{} * a, [&](size_t j) { return r_x(refarr(a, j, oa + 1), 1, xm(j)); });
    cmp_spline("X2", X<2>{} * a, [&](size_t j) { return r_x(refarr(a, j, oa + 1), 2, xm(j)); });
    cmp_spline("X3", X<3>{} * b, [&](size_t j) { return r_x(refarr(b, j, ob + 1), 3, xm(j)); });
    if constexpr (oa + ob <= 3) {  // higher powers of the position operator (binomial expansion beyond the small cases)
      cmp_spline("X5", X<5>{} * a, [&](size_t j) { return r_x(refarr(a, j, oa + 1), 5, xm(j)); });
      cmp_spline("X6", X<6>{} * b, [&](size_t j) { return r_x(refarr(b, j, ob + 1), 6, xm(j)); });
      cmp_spline("X4", X<4>{} * a, [&](size_t j) { return r_x(refarr(a, j, oa + 1), 4, xm(j)); });
    }
    cmp_spline("V", SplineOperator{b} * a, [&](size_t j) { return ivl(a, j) < 0 ? MArr(oa + ob + 1) : r_mul(refarr(b, j, ob + 1), refarr(a, j, oa + 1)); });
    // scalars of another (narrower) floating type and of integral types in operator expressions: the inputs
    // 3.0f, 7.0f, 3 are exactly representable, so the result must still be at rounding level of the data type
    auto scaled = [&](MArr m, const mpq_class &f) { for (auto &e : m) e = e * MQ(f); return m; };
    cmp_spline("X1/3f", (X<1>{} / 3.0f) * a, [&](size_t j) { return scaled(r_x(refarr(a, j, oa + 1), 1, xm(j)), mq(1, 3)); });
    cmp_spline("I/7f", (IdentityOperator{} / 7.0f) * b, [&](size_t j) { return scaled(refarr(b, j, ob + 1), mq(1, 7)); });
    cmp_spline("3f*Dx1", (3.0f * Dx<1>{}) * a, [&](size_t j) { return scaled(r_dx(refarr(a, j, oa + 1), 1), mq(3)); });
    cmp_spline("X1/3", (X<1>{} / 3) * a, [&](size_t j) { return scaled(r_x(refarr(a, j, oa + 1), 1, xm(j)), mq(1, 3)); });
    cmp_spline("X1/7.0", (X<1>{} / 7.0) * b, [&](size_t j) { return scaled(r_x(refarr(b, j, ob + 1), 1, xm(j)), mq(1, 7)); });
    cmp_spline("X1*Dx1-2", (X<1>{} * Dx<1>{} - 2) * a, [&](size_t j) {
      MArr t = r_x(r_dx(refarr(a, j, oa + 1), 1), 1, xm(j)), s = refarr(a, j, oa + 1);
      for (auto &e : s) e = e * MQ(mpq_class(-2));
      return r_add(t, s);
    });
    // forms
    auto sum_iv = [&](auto f) { MQ r; for (size_t j = 0; j + 1 < g.size(); j++) r = r + f(j); return r; };
    C("LF:I", LinearForm{}(a), sum_iv([&](size_t j) { return r_linear(refarr(a, j, oa + 1), hh(j)); }), "LinearForm{}(a)");
    C("LF:X1", LinearForm{X<1>{}}(a), sum_iv([&](size_t j) { return ivl(a, j) < 0 ? MQ() : r_linear(r_x(refarr(a, j, oa + 1), 1, xm(j)), hh(j)); }), "LinearForm{X1}(a)");
    auto both = [&](size_t j) { return ivl(a, j) >= 0 && ivl(b, j) >= 0; };
    C("BF:I,I", BilinearForm{}(a, b), sum_iv([&](size_t j) { return both(j) ? r_bilinear(refarr(a, j, oa + 1), refarr(b, j, ob + 1), hh(j)) : MQ(); }), "BilinearForm{}(a,b)");
    C("BF:Dx1,Dx1", BilinearForm{Dx<1>{}, Dx<1>{}}(a, b), sum_iv([&](size_t j) { return both(j) ? r_bilinear(r_dx(refarr(a, j, oa + 1), 1), r_dx(refarr(b, j, ob + 1), 1), hh(j)) : MQ(); }), "BilinearForm{Dx1,Dx1}(a,b)");
    C("BF:I,X2", BilinearForm{X<2>{}}(a, b), sum_iv([&](size_t j) { return both(j) ? r_bilinear(refarr(a, j, oa + 1), r_x(refarr(b, j, ob + 1), 2, xm(j)), hh(j)) : MQ(); }), "BilinearForm{X2}(a,b)");
    C("BF:I,X2*Dx1", BilinearForm{X<2>{} * Dx<1>{}}(a, b), sum_iv([&](size_t j) { return both(j) ? r_bilinear(refarr(a, j, oa + 1), r_x(r_dx(refarr(b, j, ob + 1), 1), 2, xm(j)), hh(j)) : MQ(); }), "BilinearForm{X2*Dx1}(a,b)");
    // reference self-check: the bilinear reference equals the global-basis integral
    {
      RefPP ra = alpha(a), rb = alpha(b);
      // alpha() goes through val(): exact for float/double only
      if constexpr (!std::is_same_v<FT, long double>) {
        MQ bf = sum_iv([&](size_t j) { return both(j) ? r_bilinear(refarr(a, j, oa + 1), r_x(refarr(b, j, ob + 1), 2, xm(j)), hh(j)) : MQ(); });
        selfcheck(bf.v == rinteg(rmul(ra, rmulx(rb, 2)), g), "bilinear midpoint reference vs global-basis integral");
      }
    }
  });
  if (oc.threw()) H.fail("ops:threw", oc.str());
  H.cls("ops");
  H.nontriv();
  H.end();
}

template <class FT>
static void per_type(Harness &H, Cmp &C) {
  static const std::vector<mpq_class> V = {mq(-8), mq(-63, 8), mq(-4), mq(-1, 8), mq(0), mq(1, 8), mq(1), mq(7, 2), mq(63, 8), mq(8)};
  for (size_t mask = 0; mask < (1u << V.size()); mask++) {
    size_t n = __builtin_popcountl(mask);
    if (n < 2 || n > 4) continue;
    std::vector<mpq_class> g;
    std::string d0 = "grid=";
    for (size_t i = 0; i < V.size(); i++)
      if (mask >> i & 1) { g.push_back(V[i]); d0 += V[i].get_str() + ","; }
    // generation: multiplicities 1..2 at every grid point, orders 0..6
    for (size_t mm = 0; mm < (1u << n); mm++) {
      std::vector<size_t> mult;
      for (size_t i = 0; i < n; i++) mult.push_back(1 + (mm >> i & 1));
      gen_case<FT, 0>(H, C, d0, g, mult);
      gen_case<FT, 1>(H, C, d0, g, mult);
      gen_case<FT, 2>(H, C, d0, g, mult);
      gen_case<FT, 3>(H, C, d0, g, mult);
      gen_case<FT, 4>(H, C, d0, g, mult);
      gen_case<FT, 5>(H, C, d0, g, mult);
      gen_case<FT, 6>(H, C, d0, g, mult);
    }
    // operations: whole grid x whole grid and two sub-window placements
    std::vector<std::pair<Win, Win>> WW = {{Win{0, n}, Win{0, n}}};
    if (n >= 3) { WW.push_back({Win{0, n - 1}, Win{1, n}}); WW.push_back({Win{1, n}, Win{0, n}}); }
    const int SC = std::is_same_v<FT, float> ? 16 : 40;
    for (size_t wi = 0; wi < WW.size(); wi++) {
      auto &ww = WW[wi];
      // coefficient scale: none / 2^SC / 2^-SC, rotating over window placements and grids
      int sel = (int)((wi + mask) % 3), sc = sel == 0 ? 0 : sel == 1 ? SC : -SC;
      op_case<FT, 0, 0>(H, C, d0, g, ww.first, ww.second, sc);
      op_case<FT, 1, 0>(H, C, d0, g, ww.first, ww.second, sc);
      op_case<FT, 1, 1>(H, C, d0, g, ww.first, ww.second, sc);
      op_case<FT, 2, 1>(H, C, d0, g, ww.first, ww.second, sc);
      op_case<FT, 1, 2>(H, C, d0, g, ww.first, ww.second, sc);
      op_case<FT, 2, 2>(H, C, d0, g, ww.first, ww.second, sc);
      op_case<FT, 3, 1>(H, C, d0, g, ww.first, ww.second, sc);
      op_case<FT, 0, 3>(H, C, d0, g, ww.first, ww.second, sc);
      op_case<FT, 3, 3>(H, C, d0, g, ww.first, ww.second, sc);
      op_case<FT, 2, 3>(H, C, d0, g, ww.first, ww.second, sc);
    }
  }
}

int main(int argc, char **argv) {
  Harness H("C16", argc, argv);
  Cmp C{H};
  per_type<float>(H, C);
  per_type<double>(H, C);
  per_type<long double>(H, C);
  H.counters["hash:outputs"] = (long)(C.hash >> 1);
  return H.finish();
}
