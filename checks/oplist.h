// Fixed list of operator expressions shared by C06, C07, C08, C17 (each with the
// reference AST of the differential expression it spells).
#pragma once
#include "lib.h"

namespace vf {
using namespace bspline::operators;

template <class S>
struct OpList {
  using VS = Spline<S, 1>;  // factor spline type for V
  template <int I, class Dummy = void>
  struct Op;
  template <class D>
  struct Op<0, D> {
    static constexpr const char *name = "I";
    static constexpr bool hasV = false;
    static auto make(const VS &) { return IdentityOperator{}; }
    static AstP ast(const RefPP *) { return aI(); }
  };
  template <class D>
  struct Op<1, D> {
    static constexpr const char *name = "X1";
    static constexpr bool hasV = false;
    static auto make(const VS &) { return X<1>{}; }
    static AstP ast(const RefPP *) { return aX(1); }
  };
  template <class D>
  struct Op<2, D> {
    static constexpr const char *name = "X2";
    static constexpr bool hasV = false;
    static auto make(const VS &) { return X<2>{}; }
    static AstP ast(const RefPP *) { return aX(2); }
  };
  template <class D>
  struct Op<3, D> {
    static constexpr const char *name = "Dx1";
    static constexpr bool hasV = false;
    static auto make(const VS &) { return Dx<1>{}; }
    static AstP ast(const RefPP *) { return aD(1); }
  };
  template <class D>
  struct Op<4, D> {
    static constexpr const char *name = "Dx2";
    static constexpr bool hasV = false;
    static auto make(const VS &) { return Dx<2>{}; }
    static AstP ast(const RefPP *) { return aD(2); }
  };
  template <class D>
  struct Op<5, D> {
    static constexpr const char *name = "X1*Dx1-2";
    static constexpr bool hasV = false;
    static auto make(const VS &) { return X<1>{} * Dx<1>{} - 2; }
    static AstP ast(const RefPP *) { return aDiff(aProd(aX(1), aD(1)), aConst(mq(2))); }
  };
  template <class D>
  struct Op<6, D> {
    static constexpr const char *name = "3*X2+Dx1";
    static constexpr bool hasV = false;
    static auto make(const VS &) { return mk<S>(mq(3)) * X<2>{} + Dx<1>{}; }
    static AstP ast(const RefPP *) { return aSum(aScale(mq(3), aX(2)), aD(1)); }
  };
  template <class D>
  struct Op<7, D> {
    static constexpr const char *name = "V*Dx1";
    static constexpr bool hasV = true;
    static auto make(const VS &v) { return SplineOperator{v} * Dx<1>{}; }
    static AstP ast(const RefPP *v) { return aProd(aV(v), aD(1)); }
  };
  template <class D>
  struct Op<8, D> {
    static constexpr const char *name = "V";
    static constexpr bool hasV = true;
    static auto make(const VS &v) { return SplineOperator{v}; }
    static AstP ast(const RefPP *v) { return aV(v); }
  };
};

template <class F, size_t... I>
inline void for_idx(std::index_sequence<I...>, F f) {
  (f(std::integral_constant<size_t, I>{}), ...);
}

/// windows used for the spline-valued factor on an n-point grid: whole grid,
/// ending inside, starting inside, point-like, empty
inline std::vector<Win> factor_windows(size_t n) {
  return {Win{0, n}, Win{1, 3}, Win{n - 3, n}, Win{2, 3}, Win{0, 0}, Win{0, 2}};
}
}  // namespace vf
