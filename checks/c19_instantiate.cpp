// C19: explicit instantiation of every public class template with the strict
// scalar archetype vf::Q (instantiates ALL non-template members, used or not),
// plus calls of the function/operator templates the other harnesses do not
// reach. Compiling this file is the check; running it performs a few exact
// sanity computations.
#define VF_STRICT
#include <bspline/interpolation/interpolation.h>

#include "lib.h"
using namespace vf;
using namespace bspline::operators;
using S = Q;

template class bspline::support::Grid<S>;
template class bspline::support::Support<S>;
template class bspline::Spline<S, 0>;
template class bspline::Spline<S, 1>;
template class bspline::Spline<S, 2>;
template class bspline::Spline<S, 3>;
template class bspline::Spline<S, 4>;
template class bspline::BSplineGenerator<S>;
template class bspline::operators::SplineOperator<S, 0>;
template class bspline::operators::SplineOperator<S, 1>;
template class bspline::operators::SplineOperator<S, 2>;
template class bspline::operators::ScalarMultiplication<S, X<1>>;
template class bspline::operators::ScalarMultiplication<int, Dx<1>>;
template class bspline::operators::OperatorProduct<X<1>, Dx<1>>;
template class bspline::operators::OperatorSum<X<2>, Dx<2>, AdditionOperation::ADDITION>;
template class bspline::operators::OperatorSum<X<2>, SplineOperator<S, 1>, AdditionOperation::SUBTRACTION>;
template class bspline::integration::BilinearForm<IdentityOperator, IdentityOperator>;
template class bspline::integration::BilinearForm<Dx<1>, X<2>>;
template class bspline::integration::LinearForm<IdentityOperator>;
template class bspline::integration::LinearForm<X<1>>;
template struct bspline::interpolation::Boundary<S>;

int main(int argc, char **argv) {
  Harness H("C19", argc, argv);
  // internal helpers and members the other harnesses never call
  if (H.take()) {
    H.begin("misc;grid-members");
    Grid<S> g = mkgrid<S>(grid_family("nonuni", 4));
    if (g.findElement(mk<S>(mq(1, 2))) != 3) H.fail("findElement", "wrong index");
    Outcome o = attempt([&] { (void)g.findElement(mk<S>(mq(1, 3))); });
    if (o.o != Out::BSPLINE_EXC) H.fail("findElement", "missing element did not throw");
    if (g.empty() || val(g.front()) != mq(-3) || val(g.back()) != mq(1, 2)) H.fail("grid", "front/back/empty");
    if (val(bspline::internal::binomialCoefficient<S>(6, 2)) != 15 || val(bspline::internal::facultyRatio<S>(3, 5)) != mq(1, 20) || val(bspline::internal::faculty<S>(5)) != 120) H.fail("misc", "factorial helpers");
    bspline::BSplineGenerator<S> gen(to_s<S>(grid_family("uni", 6)));
    if (gen.getGrid().size() != 6 || gen.generateBSplines<3>().size() != 2) H.fail("generator", "getGrid / generateBSplines");
    H.nontriv();
    H.end();
  }
  if (H.take()) {
    H.begin("misc;default-boundaries");
    auto b = bspline::interpolation::internal::defaultBoundaries<S, 4>();
    if (b.size() != 3 || val(b[2].value) != 0) H.fail("defaultBoundaries", "wrong");
    H.nontriv();
    H.end();
  }
  return H.finish();
}
