// C12: interpolation reproduces the data with the promised smoothness and
// boundaries. Exact half: generic interpolate<> with an exact Gaussian
// elimination solver over rationals. Float half (-DVF_EIGEN): bundled Eigen
// adapter in double / long double, conditions evaluated exactly on the returned
// coefficients, residuals bounded by a normwise backward-error bound.
#ifdef VF_EIGEN
#define BSPLINE_INTERPOLATION_USE_EIGEN
#endif
#include <bspline/interpolation/interpolation.h>

#include <cmath>

#include "lib.h"
using namespace vf;
using namespace bspline::interpolation;

// ---------- exact dense elimination ------------------------------------------
// returns rank; if x != nullptr and the system is square and regular, solves it
static size_t eliminate(std::vector<std::vector<mpq_class>> A, std::vector<mpq_class> b, std::vector<mpq_class> *x) {
  size_t n = A.size(), m = n ? A[0].size() : 0, rank = 0;
  std::vector<size_t> pivcol;
  for (size_t c = 0; c < m && rank < n; c++) {
    size_t p = rank;
    while (p < n && A[p][c] == 0) p++;
    if (p == n) continue;
    std::swap(A[p], A[rank]);
    std::swap(b[p], b[rank]);
    for (size_t r = 0; r < n; r++) {
      if (r == rank || A[r][c] == 0) continue;
      mpq_class f = A[r][c] / A[rank][c];
      for (size_t k = c; k < m; k++) A[r][k] -= f * A[rank][k];
      b[r] -= f * b[rank];
    }
    pivcol.push_back(c);
    rank++;
  }
  if (x && rank == n && n == m) {
    x->assign(n, mpq_class(0));
    for (size_t r = 0; r < n; r++) (*x)[pivcol[r]] = b[r] / A[r][pivcol[r]];
  }
  return rank;
}

static bool g_singular = false;
static long g_oob = 0;
template <class T>
struct ExactSolver final : internal::ISolver<T> {
  size_t n;
  std::vector<T> m, bb, xx;
  T dummy;
  ExactSolver(size_t problemsize) : n(problemsize), m(n * n, static_cast<T>(0)), bb(n, static_cast<T>(0)), xx(n, static_cast<T>(0)), dummy(static_cast<T>(0)) {}
  T &M(size_t i, size_t j) override { if (i >= n || j >= n) { g_oob++; return dummy; } return m[i * n + j]; }
  T &b(size_t i) override { if (i >= n) { g_oob++; return dummy; } return bb[i]; }
  T &x(size_t i) override { if (i >= n) { g_oob++; return dummy; } return xx[i]; }
  void solve() override {
    std::vector<std::vector<mpq_class>> A(n, std::vector<mpq_class>(n));
    std::vector<mpq_class> b(n), x;
    for (size_t i = 0; i < n; i++) {
      b[i] = val(bb[i]);
      for (size_t j = 0; j < n; j++) A[i][j] = val(m[i * n + j]);
    }
    g_singular = eliminate(A, b, &x) != n;
    for (size_t i = 0; i < n; i++) xx[i] = g_singular ? static_cast<T>(0) : mk<T>(x[i]);
  }
};

struct BC { bool last; size_t d; mpq_class v; };

// reference formulation of the interpolation problem: unknowns = global monomial
// coefficients of every piece; rank decides unique solvability independently of
// the rows the library builds
static bool uniquely_solvable(const std::vector<mpq_class> &x, size_t order, const std::vector<BC> &bcs) {
  size_t n = x.size(), NC = order + 1, U = NC * (n - 1);
  std::vector<std::vector<mpq_class>> A;
  auto drow = [&](size_t piece, size_t d, const mpq_class &at, const mpq_class &sign, std::vector<mpq_class> &row) {
    for (size_t k = d; k <= order; k++) {
      mpq_class c = 1;
      for (size_t t = 0; t < d; t++) c *= mpq_class((long)(k - t));
      mpq_class pw = 1;
      for (size_t t = 0; t < k - d; t++) pw *= at;
      row[piece * NC + k] += sign * c * pw;
    }
  };
  for (size_t k = 0; k < n; k++) {
    if (k > 0) { std::vector<mpq_class> r(U); drow(k - 1, 0, x[k], 1, r); A.push_back(r); }
    if (k + 1 < n) { std::vector<mpq_class> r(U); drow(k, 0, x[k], 1, r); A.push_back(r); }
    if (k > 0 && k + 1 < n)
      for (size_t d = 1; d < order; d++) { std::vector<mpq_class> r(U); drow(k - 1, d, x[k], 1, r); drow(k, d, x[k], -1, r); A.push_back(r); }
  }
  for (auto &b : bcs) { std::vector<mpq_class> r(U); drow(b.last ? n - 2 : 0, b.d, b.last ? x[n - 1] : x[0], 1, r); A.push_back(r); }
  return A.size() == U && eliminate(A, std::vector<mpq_class>(A.size()), nullptr) == U;
}

template <class T>
static mpq_class exactval(const T &v) {
  if constexpr (std::is_same_v<T, long double>) {
    double hi = (double)v;
    double lo = (double)(v - (long double)hi);
    return mpq_class(hi) + mpq_class(lo);
  } else {
    return val(v);
  }
}

// evaluate every condition exactly on the returned spline; returns residuals
struct Resid { std::string what; mpq_class r, rhs; };
template <class T, size_t order>
static std::vector<Resid> residuals(const Spline<T, order> &s, const std::vector<mpq_class> &x, size_t start, const std::vector<mpq_class> &y, const std::vector<BC> &bcs, bool *shape_ok) {
  std::vector<Resid> R;
  size_t n = x.size();
  *shape_ok = s.getSupport().getStartIndex() == start && s.getSupport().getEndIndex() == start + n && s.getCoefficients().size() == n - 1;
  if (!*shape_ok) return R;
  std::vector<Poly> P;
  for (size_t i = 0; i + 1 < n; i++) {
    std::vector<mpq_class> c;
    for (size_t k = 0; k <= order; k++) c.push_back(exactval(s.getCoefficients()[i][k]));
    P.push_back(pexpand(c, (x[i] + x[i + 1]) / 2));
  }
  for (size_t k = 0; k < n; k++) {
    if (k > 0) R.push_back({"value of left piece at node " + std::to_string(k), peval(P[k - 1], x[k]) - y[k], y[k]});
    if (k + 1 < n) R.push_back({"value of right piece at node " + std::to_string(k), peval(P[k], x[k]) - y[k], y[k]});
    if (k > 0 && k + 1 < n)
      for (size_t d = 1; d < order; d++) R.push_back({"continuity of derivative " + std::to_string(d) + " at node " + std::to_string(k), peval(pderiv(P[k - 1], d), x[k]) - peval(pderiv(P[k], d), x[k]), 0});
  }
  for (auto &b : bcs) R.push_back({std::string("boundary condition d^") + std::to_string(b.d) + (b.last ? " at last node" : " at first node"), peval(pderiv(b.last ? P[n - 2] : P[0], b.d), b.last ? x[n - 1] : x[0]) - b.v, b.v});
  return R;
}

// all abscissa sets with n nodes over the gap alphabet, starting at x0
template <class F>
static void all_abscissae(size_t nmin, size_t nmax, const std::vector<mpq_class> &gaps, F f) {
  for (size_t n = nmin; n <= nmax; n++) {
    size_t tot = 1;
    for (size_t i = 0; i + 1 < n; i++) tot *= gaps.size();
    for (size_t code = 0; code < tot; code++) {
      std::vector<mpq_class> x{mq(-1)};
      size_t c = code;
      std::string gs;
      for (size_t i = 0; i + 1 < n; i++) { x.push_back(x.back() + gaps[c % gaps.size()]); gs += (i ? "," : "") + gaps[c % gaps.size()].get_str(); c /= gaps.size(); }
      f(x, "n=" + std::to_string(n) + ";gaps=" + gs);
    }
  }
}

template <size_t order>
static std::vector<std::vector<std::pair<bool, size_t>>> boundary_sets() {
  // every set of order-1 distinct (node, derivative) pairs, derivative 1..order
  std::vector<std::pair<bool, size_t>> all;
  for (int l = 0; l < 2; l++)
    for (size_t d = 1; d <= order; d++) all.push_back({l == 1, d});
  std::vector<std::vector<std::pair<bool, size_t>>> r;
  size_t k = order - 1, N = all.size();
  for (size_t mask = 0; mask < ((size_t)1 << N); mask++) {
    if ((size_t)__builtin_popcountl(mask) != k) continue;
    std::vector<std::pair<bool, size_t>> s;
    for (size_t i = 0; i < N; i++)
      if (mask >> i & 1) s.push_back(all[i]);
    r.push_back(s);
  }
  return r;
}

#ifndef VF_EIGEN
using S = vf::DefaultScalar;
template <size_t order>
static void exact_cases(Harness &H, const std::vector<mpq_class> &x, const std::string &dx, bool embedded_only_default) {
  size_t n = x.size();
  for (int emb = 0; emb < 2; emb++) {
    std::vector<mpq_class> gp = x;
    size_t start = 0;
    if (emb) { gp.insert(gp.begin(), x.front() - 1); gp.push_back(x.back() + 1); gp.push_back(x.back() + 2); start = 1; }
    Grid<S> g = mkgrid<S>(gp);
    auto sets = boundary_sets<order>();
    // index -1: default boundaries
    for (long bi = -1; bi < (long)sets.size(); bi++) {
      if (emb && bi >= 0 && embedded_only_default) break;
      size_t NB = order - 1;
      // right-hand sides: unit ordinates, unit boundary values, one generic combination (linearity)
      size_t nrhs = n + (bi >= 0 ? NB : 0) + 1;
      for (size_t rh = 0; rh < nrhs; rh++) {
        if (!H.take()) continue;
        std::vector<mpq_class> y(n, mpq_class(0));
        std::vector<mpq_class> bv(NB, mpq_class(0));
        std::string rs;
        if (rh < n) { y[rh] = 1; rs = "y=unit" + std::to_string(rh); }
        else if (rh + 1 < nrhs) { bv[rh - n] = 1; rs = "bval=unit" + std::to_string(rh - n); }
        else { for (size_t i = 0; i < n; i++) y[i] = mq((i % 2 ? -1 : 1) * primes()[i], 3); for (size_t i = 0; i < NB && bi >= 0; i++) bv[i] = mq(primes()[i + 7], 2); rs = "generic"; }
        std::array<Boundary<S>, order - 1> B = internal::defaultBoundaries<S, order>();
        std::vector<BC> bcs;
        std::string bs = "default";
        if (bi >= 0) {
          bs = "";
          for (size_t i = 0; i < NB; i++) {
            B[i] = Boundary<S>{sets[bi][i].first ? Node::LAST : Node::FIRST, sets[bi][i].second, mk<S>(bv[i])};
            bs += std::string(sets[bi][i].first ? "L" : "F") + std::to_string(sets[bi][i].second);
          }
        } else {
          // the promised default: lowest derivatives zero, alternating first/last
          for (size_t i = 0; i < NB; i++) {
            bool okd = (B[i].node == (i % 2 ? Node::LAST : Node::FIRST)) && B[i].derivative == i / 2 + 1 && val(B[i].value) == 0;
            if (!okd) H.fail("default-boundaries", "defaultBoundaries()[" + std::to_string(i) + "] is not d^" + std::to_string(i / 2 + 1) + (i % 2 ? " last" : " first") + " = 0");
          }
        }
        for (size_t i = 0; i < NB; i++) bcs.push_back({B[i].node == Node::LAST, B[i].derivative, val(B[i].value)});
        H.begin("exact;o" + std::to_string(order) + ";" + dx + (emb ? ";embedded" : ";whole") + ";bc=" + bs + ";" + rs);
        bool solvable = uniquely_solvable(x, order, bcs);
        g_singular = false;
        g_oob = 0;
        std::optional<Spline<S, order>> s;
        Outcome oc = attempt([&] {
          if (bi < 0) s.emplace(interpolate<S, order, ExactSolver<S>>(Support<S>(g, start, start + n), to_s<S>(y)));
          else s.emplace(interpolate<S, order, ExactSolver<S>>(Support<S>(g, start, start + n), to_s<S>(y), B));
        });
        if (g_oob) H.fail("solver-index", "solver accessed out of range");
        if (oc.threw()) H.fail("threw", "admissible problem refused: " + oc.str());
        else if (!solvable) {
          H.cls("not-uniquely-solvable");
          H.count("skipped_not_uniquely_solvable");
        } else if (g_singular) {
          H.fail("singular-system", "the problem is uniquely solvable but the system handed to the solver is singular");
        } else {
          bool shape = true;
          auto R = residuals<S, order>(*s, x, start, y, bcs, &shape);
          if (!shape) H.fail("shape", "result has the wrong support: " + dump(*s));
          for (auto &r : R)
            if (r.r != 0) { H.fail("condition", r.what + " violated by " + r.r.get_str() + " for " + dump(*s)); break; }
          H.count("conditions_checked", (long)R.size());
          H.cls(std::string("solved:") + (bi < 0 ? "default" : "explicit") + (emb ? ":embedded" : ":whole"));
          H.nontriv();
        }
        H.end();
      }
    }
  }
}

// many nodes (size as an alphabet)
template <size_t order>
static void many_nodes(Harness &H, size_t n) {
  std::vector<mpq_class> x{mq(-2)};
  for (size_t i = 1; i < n; i++) x.push_back(x.back() + (i % 3 == 0 ? mq(1, 2) : i % 3 == 1 ? mq(1) : mq(5, 4)));
  exact_cases<order>(H, x, "n=" + std::to_string(n) + ";many-nodes", true);
}

static void run(Harness &H) {
  for (size_t n : std::vector<size_t>{9, 17}) {
    many_nodes<1>(H, n);
    many_nodes<3>(H, n);
    if (H.thorough()) { many_nodes<2>(H, n); many_nodes<4>(H, n); }
  }
  std::vector<mpq_class> gaps = H.thorough() ? std::vector<mpq_class>{mq(1), mq(1, 2), mq(3), mq(1, 8)} : std::vector<mpq_class>{mq(1), mq(1, 2), mq(3)};
  size_t nmax = H.thorough() ? 5 : 4;
  all_abscissae(2, nmax, gaps, [&](const std::vector<mpq_class> &x, const std::string &dx) {
    exact_cases<1>(H, x, dx, true);
    exact_cases<2>(H, x, dx, true);
    exact_cases<3>(H, x, dx, true);
    exact_cases<4>(H, x, dx, true);
    if (H.thorough() && x.size() <= 4) exact_cases<5>(H, x, dx, true);
  });
}
#else
// ---------------- bundled Eigen solver ------------------------------------------
template <class T, size_t order>
static void float_cases(Harness &H, const char *tn, const std::vector<mpq_class> &x, const std::string &dx) {
  size_t n = x.size();
  const mpq_class eps = exactval<T>(std::numeric_limits<T>::epsilon());
  for (int emb = 0; emb < 2; emb++) {
    std::vector<mpq_class> gp = x;
    size_t start = 0;
    if (emb) { gp.insert(gp.begin(), x.front() - 1); gp.push_back(x.back() + 1); start = 1; }
    Grid<T> g = mkgrid<T>(gp);
    auto sets = boundary_sets<order>();
    for (long bi = -1; bi < (long)sets.size(); bi++) {
      if (emb && bi >= 0) break;
      size_t NB = order - 1;
      for (int rh = 0; rh < 5; rh++) {
        if (!H.take()) continue;
        std::vector<mpq_class> y(n, mpq_class(0)), bv(NB, mpq_class(0));
        if (rh >= 3) {
          // the generic right-hand side at a very small (2^-60) and a large (2^40) scale: the system is linear, so the
          // solution and every residual scale with it; thresholds with an ABSOLUTE size (coefficients "below epsilon
          // are rounding residue") only show when the data is far from order one
          mpq_class sc = rh == 3 ? mpq_class(1) / mpq_class(1L << 60) : mpq_class(1L << 40);
          for (size_t i = 0; i < n; i++) y[i] = mq((i % 2 ? -1 : 1) * primes()[i]) * sc;
          for (size_t i = 0; i < NB && bi >= 0; i++) bv[i] = mq(primes()[i + 3]) * sc;
        } else
        if (rh == 0) y[n / 2] = 1;
        else if (rh == 1) { for (size_t i = 0; i < n; i++) y[i] = mq((i % 2 ? -1 : 1) * primes()[i]); for (size_t i = 0; i < NB && bi >= 0; i++) bv[i] = mq(primes()[i + 3]); }
        else { for (size_t i = 0; i < n; i++) y[i] = mq(100 + (long)i); if (bi >= 0 && NB) bv[0] = 1; }
        std::array<Boundary<T>, order - 1> B = internal::defaultBoundaries<T, order>();
        std::string bs = "default";
        if (bi >= 0) {
          bs = "";
          for (size_t i = 0; i < NB; i++) {
            B[i] = Boundary<T>{sets[bi][i].first ? Node::LAST : Node::FIRST, sets[bi][i].second, mk<T>(bv[i])};
            bs += std::string(sets[bi][i].first ? "L" : "F") + std::to_string(sets[bi][i].second);
          }
        }
        std::vector<BC> bcs;
        for (size_t i = 0; i < NB; i++) bcs.push_back({B[i].node == Node::LAST, B[i].derivative, exactval<T>(B[i].value)});
        H.begin(std::string("eigen<") + tn + ">;o" + std::to_string(order) + ";" + dx + (emb ? ";embedded" : ";whole") + ";bc=" + bs + ";rhs" + std::to_string(rh));
        if (!uniquely_solvable(x, order, bcs)) { H.cls("not-uniquely-solvable"); H.count("skipped_not_uniquely_solvable"); H.end(); continue; }
        std::optional<Spline<T, order>> s;
        Outcome oc = attempt([&] { s.emplace(interpolateUsingEigen<T, order>(Support<T>(g, start, start + n), to_s<T>(y), B)); });
        if (oc.threw()) { H.fail("threw", oc.str()); H.end(); continue; }
        bool shape = true;
        auto R = residuals<T, order>(*s, x, start, y, bcs, &shape);
        if (!shape) { H.fail("shape", "result has the wrong support"); H.end(); continue; }
        // backward-error bound: 2^20 eps (N * Rmax * |c|_inf + |rhs|)
        mpq_class cinf = 0, Rmax = 0;
        bool finite = true;
        for (auto &a : s->getCoefficients())
          for (auto &c : a) { if (!std::isfinite((double)c)) finite = false; else cinf = std::max(cinf, mpq_class(abs(exactval<T>(c)))); }
        if (!finite) { H.fail("non-finite", "solver returned non-finite coefficients for a uniquely solvable problem"); H.end(); continue; }
        for (size_t i = 0; i + 1 < n; i++) {
          mpq_class h = (x[i + 1] - x[i]) / 2, sum = 0;
          for (size_t d = 0; d <= order; d++)
            for (size_t k = d; k <= order; k++) {
              mpq_class c = 1, pw = 1;
              for (size_t t = 0; t < d; t++) c *= mpq_class((long)(k - t));
              for (size_t t = 0; t < k - d; t++) pw *= h;
              sum += c * pw;
            }
          Rmax = std::max(Rmax, mpq_class(2 * sum));
        }
        mpq_class N((long)((order + 1) * (n - 1)));
        mpq_class K20(1048576);
        double worst = 0;
        for (auto &r : R) {
          mpq_class bound = K20 * eps * (N * Rmax * cinf + abs(r.rhs));
          mpq_class ar = abs(r.r);
          if (ar > bound) { H.fail("residual", r.what + ": residual " + std::to_string(ar.get_d()) + " exceeds the backward-error bound " + std::to_string(bound.get_d())); break; }
          if (bound > 0) worst = std::max(worst, mpq_class(ar * K20 / bound).get_d());  // in units of eps*(N R |c| + |rhs|)
        }
        H.counters["max:residual_over_eps_scale_x1000"] = std::max<long>(H.counters["max:residual_over_eps_scale_x1000"], (long)(worst * 1000));
        H.count("conditions_checked", (long)R.size());
        H.cls(std::string("solved:") + tn);
        H.nontriv();
        H.end();
      }
    }
  }
}

static void run(Harness &H) {
  std::vector<mpq_class> gaps = {mq(1), mq(1, 2), mq(3), mq(1, 8)};
  size_t nmax = H.thorough() ? 5 : 4;
  all_abscissae(2, nmax, gaps, [&](const std::vector<mpq_class> &x, const std::string &dx) {
    float_cases<double, 1>(H, "double", x, dx);
    float_cases<double, 2>(H, "double", x, dx);
    float_cases<double, 3>(H, "double", x, dx);
    float_cases<double, 4>(H, "double", x, dx);
    float_cases<long double, 1>(H, "long double", x, dx);
    float_cases<long double, 3>(H, "long double", x, dx);
    if (H.thorough()) {
      float_cases<long double, 2>(H, "long double", x, dx);
      float_cases<long double, 4>(H, "long double", x, dx);
    }
  });
}
#endif

int main(int argc, char **argv) {
  Harness H("C12", argc, argv);
  run(H);
  return H.finish();
}
