// C06: bilinear forms equal the exact integral of the two transformed splines.
// Compile-time parameters: VF_OPS (list of operator indices), VF_OA_LIST /
// VF_OB_MAX select the slice of the order matrix built into this unit.
#include "oplist.h"
using namespace vf;
using S = vf::DefaultScalar;
using OL = OpList<S>;
using bspline::integration::BilinearForm;
using bspline::integration::ScalarProduct;

#ifndef VF_OPS
#define VF_OPS 0, 1, 3, 7
#endif
#ifndef VF_OA_LIST
#define VF_OA_LIST 0, 1, 2
#endif
#ifndef VF_OB_MAX
#define VF_OB_MAX 2
#endif
#ifndef VF_OB_MIN
#define VF_OB_MIN 0
#endif
static constexpr int OPS[] = {VF_OPS};
static constexpr size_t NOPS = sizeof(OPS) / sizeof(OPS[0]);
static constexpr size_t OAS[] = {VF_OA_LIST};
static constexpr size_t NOAS = sizeof(OAS) / sizeof(OAS[0]);

static bool common_interval(Win a, Win b) {
  for (size_t i = a.s; i + 1 < a.e; i++)
    if (i >= b.s && i + 1 < b.e) return true;
  return false;
}

template <int I, int J, size_t oa, size_t ob>
static void cases(Harness &H, const std::string &d0, const Grid<S> &g, const Grid<S> &gcopy, const std::vector<mpq_class> &pts, size_t n) {
  using O1 = typename OL::template Op<I>;
  using O2 = typename OL::template Op<J>;
  auto W = windows(n);
  std::vector<Win> FW = (O1::hasV || O2::hasV) ? factor_windows(n) : std::vector<Win>{Win{0, 0}};
  for (size_t fi = 0; fi < FW.size(); fi++) {
    Win fw = FW[fi];
    auto v = mkspline_p<S, 1>(g, fw, fw.nint() ? fw.nint() * 2 + 1 : 0);  // generic factor
    RefPP rv = alpha(v);
    AstP a1 = O1::ast(&rv), a2 = O2::ast(&rv);
    std::string dop = d0 + ";" + O1::name + "|" + O2::name + ";o" + std::to_string(oa) + "," + std::to_string(ob) + ((O1::hasV || O2::hasV) ? ";v=" + wstr(fw) : "");
    for (Win a : W)
      for (Win b : W) {
        size_t Ka = a.nint() * (oa + 1), Kb = b.nint() * (ob + 1);
        std::vector<std::pair<size_t, size_t>> PP;
        bool common = common_interval(a, b);
        if (Ka && Kb) {
          if (common && fi <= 1) {
            for (size_t i = 0; i < Ka; i++)
              for (size_t j = 0; j < Kb; j++) PP.push_back({i, j});
            PP.push_back({Ka, Kb + 1});
            PP.push_back({Ka + 2, Kb});
          }
          PP.push_back({Ka + 1, Kb + 2});
          if (common) PP.push_back({Ka + 2, Kb + 1});
        } else {
          PP.push_back({Ka ? Ka + 1 : 0, Kb ? Kb + 1 : 0});
        }
        for (auto pq : PP)
          for (int copy = 0; copy < 2; copy++) {
            if (copy && !(pq.first == Ka + 1)) continue;  // equal-but-distinct grid object: generic pattern only
            if (!H.take()) continue;
            H.begin(dop + ";" + wstr(a) + ":" + pname(Ka, pq.first) + ";" + wstr(b) + ":" + pname(Kb, pq.second) + (copy ? ";b-on-copy" : ""));
            auto sa = mkspline_p<S, oa>(g, a, pq.first);
            auto sb = mkspline_p<S, ob>(copy ? gcopy : g, b, pq.second);
            RefPP ra = alpha(sa), rb = alpha(sb);
            mpq_class ex = rinteg(rmul(ref_apply(*a1, ra), ref_apply(*a2, rb)), pts);
            mpq_class got, swapped;
            Outcome oc = attempt([&] {
              got = val(BilinearForm{O1::make(v), O2::make(v)}(sa, sb));
              swapped = val(BilinearForm{O2::make(v), O1::make(v)}.evaluate(sb, sa));
            });
            if (oc.threw()) H.fail("bilinear:threw", oc.str());
            else {
              if (got != ex) H.fail("bilinear", std::string("<") + O1::name + " a|" + O2::name + " b> = " + got.get_str() + ", exact integral = " + ex.get_str() + " for a=" + dump(sa) + " b=" + dump(sb) + " v=" + dump(v));
              if (swapped != got) H.fail("bilinear:swap", "swapping the (operator, spline) pairs changes the value: " + got.get_str() + " vs " + swapped.get_str());
              if (!common && got != 0) H.fail("bilinear:nocommon", "non-zero without a common interval");
              if constexpr (oa == ob) {
                // the same OBJECT as both arguments (anything keyed on &a == &b)
                if (a == b && pq.first == Ka + 1 && !copy) {
                  mpq_class exs = rinteg(rmul(ref_apply(*a1, ra), ref_apply(*a2, ra)), pts);
                  mpq_class self = val(BilinearForm{O1::make(v), O2::make(v)}(sa, sa));
                  if (self != exs) H.fail("bilinear:same-object", "form(a, a) with one object = " + self.get_str() + ", exact integral = " + exs.get_str());
                  H.cls("same-object");
                }
              }
              if constexpr (I == 0 && J == 0) {
                mpq_class sp = val(ScalarProduct{}(sa, sb));
                mpq_class sp2 = val(BilinearForm{}(sa, sb));
                if (sp != ex || sp2 != ex) H.fail("scalarproduct", "ScalarProduct = " + sp.get_str() + " expected " + ex.get_str());
              }
            }
            if (alpha(sa) != ra || alpha(sb) != rb) H.fail("operand-changed", "an operand changed");
            H.cls(std::string(common ? "common:" : "nocommon:") + allen(a, b));
            if (O1::hasV || O2::hasV) H.cls(std::string("factor:") + fw.kind() + (fw.e < n ? ":ends-inside-grid" : "") + (fw.s > 0 ? ":starts-inside-grid" : ""));
            if (ex != 0) H.nontriv();
            H.end();
          }
      }
  }
}

// operators of the SAME C++ type that carry DIFFERENT state (scalars, factor splines): anything that treats
// "same type" as "same operator" (canonical argument orders, caches keyed by type) shows up here only
template <size_t oa, size_t ob>
static void state_cases(Harness &H, const std::string &d0, const Grid<S> &g, const std::vector<mpq_class> &pts, size_t n) {
  auto W = windows(n);
  auto v1 = mkspline_p<S, 1>(g, Win{0, n}, (n - 1) * 2 + 1), v2 = mkspline_p<S, 1>(g, Win{1, n - 1}, (n - 3) * 2 + 2);
  RefPP rv1 = alpha(v1), rv2 = alpha(v2);
  for (int kind = 0; kind < 3; kind++) {
    static const char *kn[] = {"Dx1+2|Dx1+3", "V1|V2", "(2*X1)*Dx1|(5*X1)*Dx1"};
    AstP a1 = kind == 0 ? aSum(aD(1), aConst(mq(2))) : kind == 1 ? aV(&rv1) : aProd(aScale(mq(2), aX(1)), aD(1));
    AstP a2 = kind == 0 ? aSum(aD(1), aConst(mq(3))) : kind == 1 ? aV(&rv2) : aProd(aScale(mq(5), aX(1)), aD(1));
    for (Win a : W)
      for (Win b : W) {
        size_t Ka = a.nint() * (oa + 1), Kb = b.nint() * (ob + 1);
        if (!Ka || !Kb) continue;
        for (int pv = 0; pv < 2; pv++) {
          if (!H.take()) continue;
          size_t pa = pv ? Ka + 2 : Ka + 1, pb = pv ? Kb + 1 : Kb + 2;
          H.begin(d0 + ";same-type-different-state;" + kn[kind] + ";o" + std::to_string(oa) + "," + std::to_string(ob) + ";" + wstr(a) + ":" + pname(Ka, pa) + ";" + wstr(b) + ":" + pname(Kb, pb));
          auto sa = mkspline_p<S, oa>(g, a, pa);
          auto sb = mkspline_p<S, ob>(g, b, pb);
          mpq_class ex = rinteg(rmul(ref_apply(*a1, alpha(sa)), ref_apply(*a2, alpha(sb))), pts), got, sw;
          Outcome oc = attempt([&] {
            if (kind == 0) { got = val(BilinearForm{Dx<1>{} + mki<S>(2), Dx<1>{} + mki<S>(3)}(sa, sb)); sw = val(BilinearForm{Dx<1>{} + mki<S>(3), Dx<1>{} + mki<S>(2)}(sb, sa)); }
            else if (kind == 1) { got = val(BilinearForm{SplineOperator{v1}, SplineOperator{v2}}(sa, sb)); sw = val(BilinearForm{SplineOperator{v2}, SplineOperator{v1}}(sb, sa)); }
            else { got = val(BilinearForm{(2 * X<1>{}) * Dx<1>{}, (5 * X<1>{}) * Dx<1>{}}(sa, sb)); sw = val(BilinearForm{(5 * X<1>{}) * Dx<1>{}, (2 * X<1>{}) * Dx<1>{}}(sb, sa)); }
          });
          if (oc.threw()) H.fail("bilinear:threw", oc.str());
          else {
            if (got != ex) H.fail("bilinear", std::string("same-type operators with different state: ") + kn[kind] + " gives " + got.get_str() + ", exact integral = " + ex.get_str());
            if (sw != got) H.fail("bilinear:swap", "swapping the (operator, spline) pairs changes the value");
          }
          H.cls("same-type-different-state");
          if (ex != 0) H.nontriv();
          H.end();
        }
      }
  }
}

template <size_t oa, size_t ob>
static void per_orders(Harness &H, const std::string &d0, const Grid<S> &g, const Grid<S> &gcopy, const std::vector<mpq_class> &pts, size_t n) {
  for_idx(std::make_index_sequence<NOPS>{}, [&](auto II) {
    for_idx(std::make_index_sequence<NOPS>{}, [&](auto JJ) {
      cases<OPS[decltype(II)::value], OPS[decltype(JJ)::value], oa, ob>(H, d0, g, gcopy, pts, n);
    });
  });
}

// long supports (size as an alphabet)
static void large_cases(Harness &H) {
  for (size_t n : std::vector<size_t>{34, 67}) {
    auto pts = grid_family("uni", n);
    for (size_t i = 0; i < n; i++) pts[i] = pts[i] * pts[i] / mpq_class((long)n) + pts[i] / 3 - 5;
    Grid<S> g = mkgrid<S>(pts);
    auto v = mkspline_p<S, 1>(g, Win{3, n - 4}, (n - 8) * 2 + 1);
    RefPP rv = alpha(v);
    std::vector<std::pair<Win, Win>> WW = {{Win{0, n}, Win{0, n}}, {Win{0, n - 1}, Win{1, n}}, {Win{2, n / 2}, Win{n / 2 - 3, n - 1}}, {Win{1, n - 1}, Win{n / 2, n / 2 + 2}}, {Win{n / 2, n / 2 + 3}, Win{0, n}}};
    for (auto &ww : WW)
      for (int kind = 0; kind < 3; kind++) {
        if (!H.take()) continue;
        static const char *kn[] = {"I|I", "X1|Dx1", "V*Dx1|X2"};
        H.begin("large" + std::to_string(n) + ";" + kn[kind] + ";o2,1;" + wstr(ww.first) + ";" + wstr(ww.second));
        auto sa = mkspline_p<S, 2>(g, ww.first, ww.first.nint() * 3 + 1);
        auto sb = mkspline_p<S, 1>(g, ww.second, ww.second.nint() * 2 + 2);
        AstP a1 = kind == 0 ? aI() : kind == 1 ? aX(1) : aProd(aV(&rv), aD(1));
        AstP a2 = kind == 0 ? aI() : kind == 1 ? aD(1) : aX(2);
        mpq_class ex = rinteg(rmul(ref_apply(*a1, alpha(sa)), ref_apply(*a2, alpha(sb))), pts), got, sw;
        Outcome oc = attempt([&] {
          if (kind == 0) { got = val(BilinearForm{}(sa, sb)); sw = val(BilinearForm{}(sb, sa)); }
          else if (kind == 1) { got = val(BilinearForm{X<1>{}, Dx<1>{}}(sa, sb)); sw = val(BilinearForm{Dx<1>{}, X<1>{}}(sb, sa)); }
          else { got = val(BilinearForm{SplineOperator{v} * Dx<1>{}, X<2>{}}(sa, sb)); sw = val(BilinearForm{X<2>{}, SplineOperator{v} * Dx<1>{}}(sb, sa)); }
        });
        if (oc.threw()) H.fail("bilinear:threw", oc.str());
        else {
          if (got != ex) H.fail("bilinear", std::string(kn[kind]) + " on long supports gives " + got.get_str() + ", exact integral = " + ex.get_str());
          if (sw != got) H.fail("bilinear:swap", "swapping the (operator, spline) pairs changes the value");
        }
        H.cls("large");
        if (ex != 0) H.nontriv();
        H.end();
      }
  }
}

// high orders (the order-10 example bases, their products and operator images): kernels whose index arithmetic
// (shifts, factorials, array sizes) only goes wrong for long coefficient arrays
template <size_t oa, size_t ob>
static void high_pair(Harness &H, const Grid<S> &g, const std::vector<mpq_class> &pts) {
  for (Win a : {Win{0, 3}, Win{1, 3}, Win{0, 2}})
    for (Win b : {Win{0, 3}, Win{0, 2}})
      for (int pv = 0; pv < 4; pv++) {
        if (!H.take()) continue;
        size_t Ka = a.nint() * (oa + 1), Kb = b.nint() * (ob + 1);
        size_t pa = pv == 0 ? Ka + 1 : pv == 1 ? Ka + 2 : pv == 2 ? Ka - 1 : oa, pb = pv == 0 ? Kb + 2 : pv == 1 ? Kb + 1 : pv == 2 ? Kb - 1 : ob;
        H.begin("high:nonuni3;o" + std::to_string(oa) + "," + std::to_string(ob) + ";" + wstr(a) + ":" + pname(Ka, pa) + ";" + wstr(b) + ":" + pname(Kb, pb));
        auto sa = mkspline_p<S, oa>(g, a, pa);
        auto sb = mkspline_p<S, ob>(g, b, pb);
        RefPP ra = alpha(sa), rb = alpha(sb);
        mpq_class e0 = rinteg(rmul(ra, rb), pts), e1 = rinteg(rmul(rmulx(ra, 1), rderiv(rb, 1)), pts), g0, g1, s1;
        Outcome oc = attempt([&] { g0 = val(BilinearForm{}(sa, sb)); g1 = val(BilinearForm{X<1>{}, Dx<1>{}}(sa, sb)); s1 = val(BilinearForm{Dx<1>{}, X<1>{}}(sb, sa)); });
        if (oc.threw()) H.fail("bilinear:threw", oc.str());
        else {
          if (g0 != e0) H.fail("bilinear", "<a|b> = " + g0.get_str() + ", exact integral = " + e0.get_str() + " for orders " + std::to_string(oa) + "," + std::to_string(ob));
          if (g1 != e1) H.fail("bilinear", "<X1 a|Dx1 b> = " + g1.get_str() + ", exact integral = " + e1.get_str() + " for orders " + std::to_string(oa) + "," + std::to_string(ob));
          if (s1 != g1) H.fail("bilinear:swap", "swapping the (operator, spline) pairs changes the value");
        }
        H.cls("high-order");
        if (e0 != 0) H.nontriv();
        H.end();
      }
}
static void high_order_cases(Harness &H) {
  auto pts = grid_family("nonuni", 3);
  Grid<S> g = mkgrid<S>(pts);
  high_pair<14, 14>(H, g, pts);
  high_pair<20, 9>(H, g, pts);
  high_pair<9, 20>(H, g, pts);
  high_pair<31, 1>(H, g, pts);
  high_pair<16, 17>(H, g, pts);
}

static void run(Harness &H) {
#if VF_OB_MIN == 0
  large_cases(H);
  high_order_cases(H);
#endif
  size_t n = 5;
  std::vector<std::string> fams = H.thorough() ? std::vector<std::string>{"nonuni", "far", "sym"} : std::vector<std::string>{"nonuni"};
  for (auto fam : fams) {
    auto pts = grid_family(fam, n);
    Grid<S> g = mkgrid<S>(pts), gcopy = mkgrid<S>(pts);
    std::string d0 = fam + std::to_string(n);
    for_idx(std::make_index_sequence<NOAS>{}, [&](auto A) {
      for_idx(std::make_index_sequence<VF_OB_MAX - VF_OB_MIN + 1>{}, [&](auto B) {
        per_orders<OAS[decltype(A)::value], decltype(B)::value + VF_OB_MIN>(H, d0, g, gcopy, pts, n);
        state_cases<OAS[decltype(A)::value], decltype(B)::value + VF_OB_MIN>(H, d0, g, pts, n);
      });
    });
  }
}

int main(int argc, char **argv) {
  Harness H("C06", argc, argv);
  run(H);
  return H.finish();
}
