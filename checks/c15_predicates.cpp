// C15: predicates tell the truth (isZero, checkOverlap, ==, !=).
#include "lib.h"
using namespace vf;
using S = vf::DefaultScalar;

template <size_t o>
static void zero_cases(Harness &H, const std::string &d0, const Grid<S> &g, const std::vector<mpq_class> &pts, Win w) {
  size_t K = w.nint() * (o + 1);
  for (size_t p = 0; p < npatterns(K); p++) {
    if (!H.take()) continue;
    H.begin(d0 + ";isZero;o" + std::to_string(o) + ";" + wstr(w) + ";" + pname(K, p));
    auto s = mkspline_p<S, o>(g, w, p);
    bool z = false;
    Outcome oc = attempt([&] { z = s.isZero(); });
    bool ex = alpha(s).zero();
    // independent second opinion: every probe evaluates to zero
    bool allzero = true;
    for (size_t i = 0; i + 1 < pts.size(); i++)
      for (int q = 0; q <= 4 + (int)o; q++) {
        mpq_class x = pts[i] + (pts[i + 1] - pts[i]) * mq(q, 4 + o);
        if (val(s(mk<S>(x))) != 0) allzero = false;
      }
    if (allzero != ex) H.fail("oracle", "reference disagreement: alpha zero=" + std::to_string(ex) + " probes zero=" + std::to_string(allzero));
    if (oc.threw()) H.fail("isZero", "threw " + oc.str());
    else if (z != ex) H.fail("isZero", std::string("isZero() = ") + (z ? "true" : "false") + " but the spline " + (ex ? "is" : "is not") + " zero everywhere: " + dump(s));
    H.cls(ex ? (w.nint() ? "isZero:true:zero-coefficients" : "isZero:true:interval-free") : "isZero:false");
    if (!ex) H.nontriv();
    H.end();
  }
}

template <size_t oa, size_t ob>
static void overlap_cases(Harness &H, const std::string &d0, const Grid<S> &g, const Grid<S> &g2, size_t n, const char *vn) {
  for (Win a : windows(n))
    for (Win b : windows(n)) {
      if (!H.take()) continue;
      H.begin(d0 + ";overlap;" + vn + ";o" + std::to_string(oa) + "," + std::to_string(ob) + ";" + wstr(a) + ";" + wstr(b));
      auto sa = mkspline<S, oa>(g, a, std::vector<mpq_class>(a.nint() * (oa + 1), mpq_class(1)));
      auto sb = mkspline<S, ob>(g2, b, std::vector<mpq_class>(b.nint() * (ob + 1), mpq_class(1)));
      // model: the windows share at least one interval
      bool ex = false;
      for (size_t i = a.s; i + 1 < a.e; i++)
        if (i >= b.s && i + 1 < b.e) ex = true;
      // equivalently: product of the two denoted functions is not identically zero
      bool prod = !rmul(alpha(sa), alpha(sb)).zero();
      if (prod != ex) H.fail("oracle", "reference disagreement");
      bool r1 = false, r2 = false;
      Outcome o1 = attempt([&] { r1 = sa.checkOverlap(sb); r2 = sb.checkOverlap(sa); });
      if (o1.threw()) H.fail("checkOverlap", "threw " + o1.str());
      else {
        if (r1 != ex) H.fail("checkOverlap", std::string("a.checkOverlap(b) = ") + (r1 ? "true" : "false") + ", windows share an interval: " + (ex ? "yes" : "no"));
        if (r2 != ex) H.fail("checkOverlap", std::string("b.checkOverlap(a) = ") + (r2 ? "true" : "false") + ", windows share an interval: " + (ex ? "yes" : "no"));
      }
      // the same OBJECT as both arguments (anything keyed on &a == &b), and an object against its copy
      {
        bool self = sa.checkOverlap(sa), cp = sa.checkOverlap(decltype(sa)(sa)), want = a.nint() > 0;
        if (self != want || cp != want) H.fail("checkOverlap", std::string("a.checkOverlap(a) = ") + (self ? "true" : "false") + ", a.checkOverlap(copy of a) = " + (cp ? "true" : "false") + " for a spline with " + std::to_string(a.nint()) + " interval(s)");
        if (!(sa == sa) || (sa != sa)) H.fail("eq-refl", "a == a is false for the same object");
        if (sa.isZero() != alpha(sa).zero()) H.fail("isZero", "isZero() disagrees with the denoted function");
      }
      H.cls(std::string("overlap:") + (ex ? "true:" : "false:") + allen(a, b));
      if (a.nint() && b.nint()) H.nontriv();
      H.end();
    }
}

template <size_t o>
static void eq_cases(Harness &H, const std::string &d0, const Grid<S> &g, const Grid<S> &g2, size_t n, const char *vn, bool equalGrids) {
  for (Win a : windows(n))
    for (Win b : windows(n)) {
      size_t Ka = a.nint() * (o + 1), Kb = b.nint() * (o + 1);
      bool samewin = (a == b);
      std::vector<size_t> pa, pb;
      if (samewin) {
        for (size_t p = 0; p < npatterns(Ka); p++) { pa.push_back(p); pb.push_back(p); }
      } else {
        pa = {Ka ? Ka : 0, Ka ? Ka + 1 : 0};
        pb = {Kb ? Kb : 0, Kb ? Kb + 1 : 0};
        if (!Ka) pa.resize(1);
        if (!Kb) pb.resize(1);
      }
      for (size_t p : pa)
        for (size_t q : pb) {
          if (!H.take()) continue;
          H.begin(d0 + ";eq;" + vn + ";o" + std::to_string(o) + ";" + wstr(a) + ":" + pname(Ka, p) + ";" + wstr(b) + ":" + pname(Kb, q));
          auto sa = mkspline_p<S, o>(g, a, p);
          auto sb = mkspline_p<S, o>(g2, b, q);
          bool bothEmpty = a.empty() && b.empty();
          bool ex = equalGrids && (samewin || bothEmpty) && pattern(Ka, p) == pattern(Kb, q);
          bool e1 = false, e2 = false, n1 = false, n2 = false;
          Outcome oc = attempt([&] { e1 = (sa == sb); e2 = (sb == sa); n1 = (sa != sb); n2 = (sb != sa); });
          if (oc.threw()) H.fail("eq", "threw " + oc.str());
          else {
            if (e1 != ex) H.fail("eq", std::string("a == b is ") + (e1 ? "true" : "false") + ", expected " + (ex ? "true" : "false") + ": " + dump(sa) + " vs " + dump(sb));
            if (e1 != e2) H.fail("eq-sym", "== is not symmetric");
            if (n1 == e1 || n2 == e2) H.fail("ne", "!= is not the negation of ==");
          }
          // reflexivity and copies
          {
            Spline<S, o> ca(sa);
            bool r = false, c1 = false, c2 = false;
            Outcome o2 = attempt([&] { r = (sa == sa); c1 = (ca == sa); c2 = (sa != ca); });
            if (o2.threw() || !r) H.fail("eq-refl", "a == a is false");
            if (!c1 || c2) H.fail("eq-copy", "copy does not compare equal");
          }
          H.cls(std::string("eq:") + (ex ? "true" : "false") + ":" + vn + (samewin ? ":samewin" : ":otherwin"));
          if (Ka && Kb) H.nontriv();
          H.end();
        }
    }
}

// floating types: predicates must not use tolerances. Coefficients of tiny magnitude are not zero, coefficient
// vectors that differ in the last bit are not equal.
template <class FT>
static void float_cases(Harness &H, const char *tn) {
  auto pts = grid_family("nonuni", 4);
  Grid<FT> g = mkgrid<FT>(pts);
  const FT tiny = std::numeric_limits<FT>::denorm_min(), small = std::numeric_limits<FT>::min(), eps = std::numeric_limits<FT>::epsilon();
  for (Win w : windows(4)) {
    if (!w.nint()) continue;
    for (size_t pos = 0; pos < w.nint() * 2; pos++)
      for (int kind = 0; kind < 4; kind++) {
        if (!H.take()) continue;
        static const char *kn[] = {"denorm_min", "min", "eps/4", "-eps*eps"};
        FT val = kind == 0 ? tiny : kind == 1 ? small : kind == 2 ? eps / 4 : -eps * eps;
        H.begin(std::string(tn) + ";float-predicates;" + wstr(w) + ";slot" + std::to_string(pos) + ";" + kn[kind]);
        std::vector<std::array<FT, 2>> c(w.nint(), std::array<FT, 2>{FT(0), FT(0)}), c1(w.nint(), std::array<FT, 2>{FT(1), FT(-2)}), c2;
        c[pos / 2][pos % 2] = val;
        c2 = c1;
        c2[pos / 2][pos % 2] = c2[pos / 2][pos % 2] * (FT(1) + eps);  // differs in the last bit
        Spline<FT, 1> s(Support<FT>(g, w.s, w.e), c), a(Support<FT>(g, w.s, w.e), c1), b(Support<FT>(g, w.s, w.e), c2), z(Support<FT>(g, w.s, w.e), std::vector<std::array<FT, 2>>(w.nint(), std::array<FT, 2>{FT(0), FT(-0.0)}));
        if (s.isZero()) H.fail("isZero", std::string("isZero() is true for a spline with the non-zero coefficient ") + kn[kind]);
        if (!z.isZero()) H.fail("isZero", "isZero() is false for a spline whose coefficients are +0 and -0");
        {
          // +0 and -0 are the same coefficient value (they compare equal, and the splines are the same function)
          Spline<FT, 1> zp(Support<FT>(g, w.s, w.e), std::vector<std::array<FT, 2>>(w.nint(), std::array<FT, 2>{FT(0), FT(0)})),
              zm(Support<FT>(g, w.s, w.e), std::vector<std::array<FT, 2>>(w.nint(), std::array<FT, 2>{FT(-0.0), FT(-0.0)}));
          if (!(zp == zm) || (zp != zm) || !(zm == z) || !(a * FT(0) == a - a)) H.fail("eq", "splines whose coefficients are +0 / -0 (equal values) compare unequal");
          std::vector<std::array<FT, 2>> c3 = c1;
          c3[pos / 2][pos % 2] = FT(0);
          std::vector<std::array<FT, 2>> c4 = c3;
          c4[pos / 2][pos % 2] = FT(-0.0);
          if (!(Spline<FT, 1>(Support<FT>(g, w.s, w.e), c3) == Spline<FT, 1>(Support<FT>(g, w.s, w.e), c4))) H.fail("eq", "one coefficient +0 versus -0, all others identical: == is false");
        }
        if (a == b || !(a != b)) H.fail("eq", "splines whose coefficients differ in the last bit compare equal");
        if (!(a == a) || !(s == s)) H.fail("eq-refl", "a == a is false");
        H.cls(std::string("float-predicates:") + tn);
        H.nontriv();
        H.end();
      }
  }
}

static void run(Harness &H) {
  float_cases<double>(H, "double");
  float_cases<float>(H, "float");
  float_cases<long double>(H, "long double");
  const size_t NMAX = H.thorough() ? 6 : 5, OMAX = H.thorough() ? 3 : 2;
  for (std::string fam : {"nonuni", "uni"}) {
    for (size_t n = 2; n <= NMAX; n++) {
      auto pts = grid_family(fam, n);
      Grid<S> g = mkgrid<S>(pts), gcopy = mkgrid<S>(pts);
      auto pts2 = pts;
      pts2[0] -= 1;
      Grid<S> gmoved = mkgrid<S>(pts2);
      std::string d0 = fam + std::to_string(n);
      for (Win w : windows(n))
        for (size_t o = 0; o <= OMAX; o++) with_order<3>(o, [&](auto O) { zero_cases<decltype(O)::value>(H, d0, g, pts, w); });
      if (fam == "uni" && n < NMAX) continue;  // pair spaces: one family at all sizes, the other at the largest
      for (int variant = 0; variant < 2; variant++) {
        const Grid<S> &g2 = variant ? gcopy : g;
        const char *vn = variant ? "copy" : "same";
        for (size_t oa = 0; oa <= OMAX; oa++)
          for (size_t ob = 0; ob <= OMAX; ob++)
            with_order<3>(oa, [&](auto OA) { with_order<3>(ob, [&](auto OB) { overlap_cases<decltype(OA)::value, decltype(OB)::value>(H, d0, g, g2, n, vn); }); });
      }
      for (int variant = 0; variant < 3; variant++) {
        const Grid<S> &g2 = variant == 0 ? g : variant == 1 ? gcopy : gmoved;
        const char *vn = variant == 0 ? "same" : variant == 1 ? "copy" : "moved";
        for (size_t o = 0; o <= OMAX; o++) with_order<3>(o, [&](auto O) { eq_cases<decltype(O)::value>(H, d0, g, g2, n, vn, variant < 2); });
      }
    }
  }
}

int main(int argc, char **argv) {
  Harness H("C15", argc, argv);
  run(H);
  return H.finish();
}
