// C04: primitive operators are d^n/dx^n and multiplication by x^n on every
// interval; identity returns an equal spline; results are zero outside the
// operand's support.
#include <utility>

#include "lib.h"
using namespace vf;
using S = vf::DefaultScalar;
using namespace bspline::operators;

template <size_t o, class Op, class RefF>
static void apply_cases(Harness &H, const std::string &d0, const std::string &opname, const Grid<S> &g, size_t n, RefF reff) {
  for (Win a : windows(n)) {
    size_t K = a.nint() * (o + 1);
    for (size_t p = 0; p < npatterns(K); p++) {
      if (!H.take()) continue;
      H.begin(d0 + ";" + opname + ";o" + std::to_string(o) + ";" + wstr(a) + ";" + pname(K, p));
      auto s = mkspline_p<S, o>(g, a, p);
      RefPP rs = alpha(s), ex = reff(rs);
      Outcome oc = attempt([&] {
        auto r = Op{} * s;
        bool ok = true;
        RefPP got = alpha(r, &ok);
        if (!ok) H.fail(opname + ":invalid-result", dump(r));
        else if (got != ex) H.fail(opname, opname + " applied to " + dump(s) + " gives " + dump(r) + " = " + got.str() + ", expected " + ex.str());
        auto r2 = transformSpline(Op{}, s);
        if (alpha(r2) != ex) H.fail(opname + ":transformSpline", "transformSpline disagrees");
        if constexpr (std::is_same_v<Op, IdentityOperator>) {
          if (!(r == s) || (r != s)) H.fail("identity:equal", "(I*s) == s is false");
        }
      });
      if (oc.threw()) H.fail(opname + ":threw", oc.str());
      if (alpha(s) != rs) H.fail("operand-changed", "operand changed");
      H.cls(opname + (ex.zero() ? ":zero-result" : ":nonzero"));
      H.cls(std::string("win:") + a.kind());
      if (!rs.zero()) H.nontriv();
      H.end();
    }
  }
}

template <size_t o, size_t... N>
static void deriv_all(Harness &H, const std::string &d0, const Grid<S> &g, size_t n, size_t nmax, std::index_sequence<N...>) {
  ((N <= nmax ? apply_cases<o, Dx<N>>(H, d0, "Dx" + std::to_string(N), g, n, [](const RefPP &r) { return rderiv(r, N); }) : void()), ...);
}
template <size_t o, size_t... N>
static void pos_all(Harness &H, const std::string &d0, const Grid<S> &g, size_t n, size_t nmax, std::index_sequence<N...>) {
  ((N <= nmax ? apply_cases<o, X<N>>(H, d0, "X" + std::to_string(N), g, n, [](const RefPP &r) { return rmulx(r, N); }) : void()), ...);
}

template <size_t o>
static void per_order(Harness &H, const std::string &d0, const Grid<S> &g, size_t n, size_t xmax) {
  apply_cases<o, IdentityOperator>(H, d0, "I", g, n, [](const RefPP &r) { return r; });
  deriv_all<o>(H, d0, g, n, o + 2, std::make_index_sequence<o + 3>{});
  pos_all<o>(H, d0, g, n, xmax, std::make_index_sequence<7>{});
}

// high powers and orders: factorials and binomials beyond 2^31 (13!) and beyond 2^64 (21!)
template <size_t o, class Op, class RefF>
static void high_case(Harness &H, const std::string &opname, RefF reff) {
  auto pts = grid_family("far", 3);
  Grid<S> g = mkgrid<S>(pts);
  for (size_t p : {(size_t)0, o, 2 * (o + 1) - 1, 2 * (o + 1) + 1}) {  // unit vectors at both ends of the coefficient array, one generic
    if (!H.take()) continue;
    size_t K = 2 * (o + 1);
    H.begin("far3;high;" + opname + ";o" + std::to_string(o) + ";w(0,3);" + pname(K, p));
    auto s = mkspline_p<S, o>(g, Win{0, 3}, p);
    RefPP ex = reff(alpha(s));
    Outcome oc = attempt([&] {
      auto r = Op{} * s;
      RefPP got = alpha(r);
      if (got != ex) H.fail(opname, opname + " on order " + std::to_string(o) + " gives " + got.str().substr(0, 300) + ", expected " + ex.str().substr(0, 300));
    });
    if (oc.threw()) H.fail(opname + ":threw", oc.str());
    H.cls("high:" + opname);
    H.nontriv();
    H.end();
  }
}

static void run(Harness &H) {
  high_case<13, Dx<13>>(H, "Dx13", [](const RefPP &r) { return rderiv(r, 13); });
  high_case<15, Dx<14>>(H, "Dx14", [](const RefPP &r) { return rderiv(r, 14); });
  high_case<22, Dx<21>>(H, "Dx21", [](const RefPP &r) { return rderiv(r, 21); });
  high_case<1, X<18>>(H, "X18", [](const RefPP &r) { return rmulx(r, 18); });
  high_case<0, X<22>>(H, "X22", [](const RefPP &r) { return rmulx(r, 22); });
  high_case<2, X<35>>(H, "X35", [](const RefPP &r) { return rmulx(r, 35); });
  std::vector<std::string> fams = H.thorough() ? std::vector<std::string>{"nonuni", "far", "uni", "neg", "sym"} : std::vector<std::string>{"far", "neg", "sym"};
  size_t n = H.thorough() ? 5 : 4, xmax = 6;
  for (auto fam : fams) {
    auto pts = grid_family(fam, n);
    Grid<S> g = mkgrid<S>(pts);
    std::string d0 = fam + std::to_string(n);
    per_order<0>(H, d0, g, n, xmax);
    per_order<1>(H, d0, g, n, xmax);
    per_order<2>(H, d0, g, n, xmax);
    per_order<3>(H, d0, g, n, xmax);
    if (H.thorough()) per_order<4>(H, d0, g, n, xmax);
  }
}

int main(int argc, char **argv) {
  Harness H("C04", argc, argv);
  run(H);
  return H.finish();
}
