// C04: primitive operators are d^n/dx^n and multiplication by x^n on every
// interval; identity returns an equal spline; results are zero outside the
// operand's support.
#include <utility>

#include "lib.h"
using namespace vf;
using S = vf::DefaultScalar;
using namespace bspline::operators;

template <size_t o, class Op, class RefF>
static void apply_cases(Harness &H, const std::string &d0, const std::string &opname, const Grid<S> &g, size_t n, RefF reff) {
  for (Win a : windows(n)) {
    size_t K = a.nint() * (o + 1);
    for (size_t p = 0; p < npatterns(K); p++) {
      if (!H.take()) continue;
      H.begin(d0 + ";" + opname + ";o" + std::to_string(o) + ";" + wstr(a) + ";" + pname(K, p));
      auto s = mkspline_p<S, o>(g, a, p);
      RefPP rs = alpha(s), ex = reff(rs);
      Outcome oc = attempt([&] {
        auto r = Op{} * s;
        bool ok = true;
        RefPP got = alpha(r, &ok);
        if (!ok) H.fail(opname + ":invalid-result", dump(r));
        else if (got != ex) H.fail(opname, opname + " applied to " + dump(s) + " gives " + dump(r) + " = " + got.str() + ", expected " + ex.str());
        auto r2 = transformSpline(Op{}, s);
        if (alpha(r2) != ex) H.fail(opname + ":transformSpline", "transformSpline disagrees");
        if constexpr (std::is_same_v<Op, IdentityOperator>) {
          if (!(r == s) || (r != s)) H.fail("identity:equal", "(I*s) == s is false");
        }
      });
      if (oc.threw()) H.fail(opname + ":threw", oc.str());
      if (alpha(s) != rs) H.fail("operand-changed", "operand changed");
      H.cls(opname + (ex.zero() ? ":zero-result" : ":nonzero"));
      H.cls(std::string("win:") + a.kind());
      if (!rs.zero()) H.nontriv();
      H.end();
    }
  }
}

template <size_t o, size_t... N>
static void deriv_all(Harness &H, const std::string &d0, const Grid<S> &g, size_t n, size_t nmax, std::index_sequence<N...>) {
  ((N <= nmax ? apply_cases<o, Dx<N>>(H, d0, "Dx" + std::to_string(N), g, n, [](const RefPP &r) { return rderiv(r, N); }) : void()), ...);
}
template <size_t o, size_t... N>
static void pos_all(Harness &H, const std::string &d0, const Grid<S> &g, size_t n, size_t nmax, std::index_sequence<N...>) {
  ((N <= nmax ? apply_cases<o, X<N>>(H, d0, "X" + std::to_string(N), g, n, [](const RefPP &r) { return rmulx(r, N); }) : void()), ...);
}

template <size_t o>
static void per_order(Harness &H, const std::string &d0, const Grid<S> &g, size_t n, size_t xmax) {
  apply_cases<o, IdentityOperator>(H, d0, "I", g, n, [](const RefPP &r) { return r; });
  deriv_all<o>(H, d0, g, n, o + 2, std::make_index_sequence<o + 3>{});
  pos_all<o>(H, d0, g, n, xmax, std::make_index_sequence<7>{});
}

static void run(Harness &H) {
  std::vector<std::string> fams = H.thorough() ? std::vector<std::string>{"nonuni", "far", "uni", "neg", "sym"} : std::vector<std::string>{"far", "neg", "sym"};
  size_t n = H.thorough() ? 5 : 4, xmax = 6;
  for (auto fam : fams) {
    auto pts = grid_family(fam, n);
    Grid<S> g = mkgrid<S>(pts);
    std::string d0 = fam + std::to_string(n);
    per_order<0>(H, d0, g, n, xmax);
    per_order<1>(H, d0, g, n, xmax);
    per_order<2>(H, d0, g, n, xmax);
    per_order<3>(H, d0, g, n, xmax);
    if (H.thorough()) per_order<4>(H, d0, g, n, xmax);
  }
}

int main(int argc, char **argv) {
  Harness H("C04", argc, argv);
  run(H);
  return H.finish();
}
