// C13: Support windows form the expected interval algebra over the grid.
// Exhaustive over grids of n points, all windows, all ordered pairs and triples,
// all index probes; oracle = std::set<size_t> model of contained grid points.
#include <set>

#include "lib.h"
using namespace vf;
using S = vf::DefaultScalar;
using Sup = Support<S>;
using PSet = std::set<size_t>;

static PSet pset(Win w) {
  PSet r;
  for (size_t i = w.s; i < w.e; i++) r.insert(i);
  return r;
}
static PSet pset(const Sup &s) {
  PSet r;
  for (size_t i = s.getStartIndex(); i < s.getEndIndex(); i++) r.insert(i);
  return r;
}
static PSet hull(const PSet &a, const PSet &b) {
  PSet r;
  if (a.empty()) return b;
  if (b.empty()) return a;
  size_t lo = std::min(*a.begin(), *b.begin()), hi = std::max(*a.rbegin(), *b.rbegin());
  for (size_t i = lo; i <= hi; i++) r.insert(i);
  return r;
}
static PSet inter(const PSet &a, const PSet &b) {
  PSet r;
  for (auto x : a)
    if (b.count(x)) r.insert(x);
  return r;
}
static std::string sstr(const PSet &s) {
  std::string r = "{";
  for (auto x : s) r += std::to_string(x) + " ";
  return r + "}";
}

static std::vector<size_t> probes(size_t n, Win w) {
  std::set<size_t> p;
  for (size_t i = 0; i <= n + 2; i++) p.insert(i);
  const size_t H = (size_t)1 << 63;
  p.insert(H - 1); p.insert(H); p.insert(H + 1);
  for (size_t k = 0; k <= n + 2; k++) p.insert(~(size_t)0 - k);
  for (size_t j = 0; j <= w.size() + 1; j++) p.insert((size_t)0 - w.s + j);  // wraps to start+idx == j
  for (size_t j = 0; j <= 2; j++) p.insert((size_t)0 - w.e + j);
  return std::vector<size_t>(p.begin(), p.end());
}

static void check_single(Harness &H, const Grid<S> &g, const std::vector<mpq_class> &pts, Win w) {
  size_t n = pts.size();
  Sup s(g, w.s, w.e);
  PSet m = pset(w);
  if (s.size() != m.size()) H.fail("size", "size()=" + std::to_string(s.size()));
  if (s.numberOfIntervals() != (m.empty() ? 0 : m.size() - 1)) H.fail("nint", "numberOfIntervals()=" + std::to_string(s.numberOfIntervals()));
  if (s.empty() != m.empty()) H.fail("empty", "empty() wrong");
  if (s.containsIntervals() != (m.size() >= 2)) H.fail("containsIntervals", "containsIntervals() wrong");
  if (s.getStartIndex() != w.s || s.getEndIndex() != w.e) H.fail("indices", "start/end index differ from construction");
  if (!(s.getGrid() == g)) H.fail("grid", "getGrid() differs");
  // iteration
  {
    std::vector<mpq_class> it;
    for (auto i = s.begin(); i != s.end(); ++i) it.push_back(val(*i));
    std::vector<mpq_class> ex(pts.begin() + w.s, pts.begin() + w.e);
    if (it != ex) H.fail("iteration", "iterated " + vstr(it) + " expected " + vstr(ex));
    if ((size_t)(s.end() - s.begin()) != m.size()) H.fail("iteration", "end-begin != size");
  }
  // front / back
  {
    mpq_class f, b;
    Outcome of = attempt([&] { f = val(s.front()); });
    Outcome ob = attempt([&] { b = val(s.back()); });
    if (m.empty()) {
      if (of.o != Out::BSPLINE_EXC) H.fail("front", "front() on empty support: " + of.str());
      if (ob.o != Out::BSPLINE_EXC) H.fail("back", "back() on empty support: " + ob.str());
      H.cls("front/back:throw");
    } else {
      if (of.threw() || f != pts[w.s]) H.fail("front", "front() wrong: " + of.str());
      if (ob.threw() || b != pts[w.e - 1]) H.fail("back", "back() wrong: " + ob.str());
      H.cls("front/back:value");
    }
  }
  for (size_t i : probes(n, w)) {
    std::string is = std::to_string(i);
    // relativeFromAbsolute: defined iff i in set
    {
      std::optional<size_t> r;
      Outcome o = attempt([&] { r = s.relativeFromAbsolute(i); });
      bool in = m.count(i) > 0;
      // "not contained" may be reported as nullopt or by the library exception
      if (o.threw() && (in || o.o != Out::BSPLINE_EXC)) H.fail("relativeFromAbsolute", "threw for " + is + ": " + o.str());
      else if (o.threw()) {}
      else if (in != r.has_value()) H.fail("relativeFromAbsolute", "relativeFromAbsolute(" + is + ") " + (r ? "returned " + std::to_string(*r) : "returned nullopt") + ", contained=" + std::to_string(in));
      else if (in) {
        if (*r != i - w.s) H.fail("relativeFromAbsolute", "wrong value for " + is);
        size_t back = (size_t)-1;
        Outcome o2 = attempt([&] { back = s.absoluteFromRelative(*r); });
        if (o2.threw() || back != i) H.fail("inverse", "absoluteFromRelative(relativeFromAbsolute(" + is + ")) != identity");
      }
      H.cls(in ? "rel:contained" : "rel:notcontained");
    }
    // intervalIndexFromAbsolute: defined iff {i, i+1} subset of set, no wrap
    {
      std::optional<size_t> r;
      Outcome o = attempt([&] { r = s.intervalIndexFromAbsolute(i); });
      bool in = m.count(i) > 0 && i != ~(size_t)0 && m.count(i + 1) > 0;
      if (o.threw() && (in || o.o != Out::BSPLINE_EXC)) H.fail("intervalIndexFromAbsolute", "threw for " + is + ": " + o.str());
      else if (o.threw()) {}
      else if (in != r.has_value()) H.fail("intervalIndexFromAbsolute", "intervalIndexFromAbsolute(" + is + ") " + (r ? "returned " + std::to_string(*r) : "returned nullopt") + ", interval contained=" + std::to_string(in));
      else if (in && *r != i - w.s) H.fail("intervalIndexFromAbsolute", "wrong value for " + is);
      H.cls(in ? "ivl:contained" : "ivl:notcontained");
    }
    // absoluteFromRelative(i): defined iff i < size
    {
      size_t a = 0;
      Outcome o = attempt([&] { a = s.absoluteFromRelative(i); });
      bool in = i < m.size();
      if (in) {
        if (o.threw() || a != w.s + i) H.fail("absoluteFromRelative", "wrong for valid relative index " + is + ": " + o.str());
        else {
          auto r = s.relativeFromAbsolute(a);
          if (!r || *r != i) H.fail("inverse", "relativeFromAbsolute(absoluteFromRelative(" + is + ")) != identity");
        }
      } else if (o.o != Out::BSPLINE_EXC) {
        H.fail("absoluteFromRelative", "absoluteFromRelative(" + is + ") outside the window did not throw BSplineException: " + o.str() + " value=" + std::to_string(a));
      }
      H.cls(in ? "abs:contained" : "abs:notcontained");
    }
    // at(i): value iff i < size, else BSplineException
    {
      mpq_class x;
      Outcome o = attempt([&] { x = val(s.at(i)); });
      bool in = i < m.size();
      if (in) {
        if (o.threw() || x != pts[w.s + i]) H.fail("at", "at(" + is + ") wrong: " + o.str());
        if (val(s[i]) != pts[w.s + i]) H.fail("subscript", "operator[] wrong for " + is);
      } else if (o.o != Out::BSPLINE_EXC) {
        H.fail("at", "at(" + is + ") outside the view did not throw BSplineException: " + o.str() + (o.threw() ? "" : " returned " + x.get_str()));
      }
      H.cls(in ? "at:contained" : "at:notcontained");
    }
    // Grid::at
    if (w.s == 0 && w.e == n) {
      mpq_class x;
      Outcome o = attempt([&] { x = val(g.at(i)); });
      if (i < n) {
        if (o.threw() || x != pts[i]) H.fail("grid.at", "Grid::at(" + is + ") wrong");
      } else if (o.o != Out::BSPLINE_EXC) {
        H.fail("grid.at", "Grid::at(" + is + ") out of range did not throw BSplineException: " + o.str());
      }
    }
  }
}

// compare a library result with the model set
static void expect_set(Harness &H, const char *what, const Outcome &o, const Sup *r, const PSet &ex, const Grid<S> &g) {
  if (o.threw()) { H.fail(what, std::string(what) + " threw: " + o.str()); return; }
  PSet got = pset(*r);
  if (got != ex) H.fail(what, std::string(what) + " = " + sstr(got) + " expected " + sstr(ex));
  if (r->empty() != ex.empty()) H.fail(what, std::string(what) + ": empty() disagrees with the window");
  if (r->getEndIndex() > g.size() || r->getStartIndex() > r->getEndIndex()) H.fail(what, std::string(what) + ": window outside grid");
  if (!(r->getGrid() == g)) H.fail(what, std::string(what) + ": result lives on another grid");
}

static void run(Harness &H) {
  const size_t NMAX = H.thorough() ? 10 : 6;
  for (size_t n = 2; n <= NMAX; n++) {
    auto pts = grid_family("nonuni", n);
    Grid<S> g = mkgrid<S>(pts);
    Grid<S> gcopy = mkgrid<S>(pts);  // equal points, distinct object
    auto pts2 = pts;
    pts2[n - 1] += 1;  // one point moved
    Grid<S> gother = mkgrid<S>(pts2);
    auto pts3 = pts;
    pts3.push_back(pts.back() + 2);  // g is a proper prefix of gext
    Grid<S> gext = mkgrid<S>(pts3);
    auto W = windows(n);
    std::string ns = "n=" + std::to_string(n) + ";";
    for (Win w : W) {
      if (!H.take()) continue;
      H.begin(ns + "single;" + wstr(w));
      if (!w.empty()) H.nontriv();
      H.cls(std::string("single:") + w.kind());
      check_single(H, g, pts, w);
      H.end();
    }
    // pairs
    for (int variant = 0; variant < 4; variant++) {
      const char *vn[] = {"same", "copy", "moved", "prefix"};
      const Grid<S> &gb = variant == 0 ? g : variant == 1 ? gcopy : variant == 2 ? gother : gext;
      bool equalGrids = variant <= 1;
      for (Win a : W)
        for (Win b : W) {
          if (!H.take()) continue;
          H.begin(ns + "pair;" + vn[variant] + ";" + wstr(a) + ";" + wstr(b));
          if (!a.empty() && !b.empty()) H.nontriv();
          H.cls(std::string(vn[variant]) + ":" + allen(a, b));
          Sup sa(g, a.s, a.e), sb(gb, b.s, b.e);
          PSet ma = pset(a), mb = pset(b);
          // equality
          bool exeq = equalGrids && (ma == mb);  // both empty => equal sets
          bool eq = false, ne = false, eq2 = false;
          Outcome oe = attempt([&] { eq = (sa == sb); ne = (sa != sb); eq2 = (sb == sa); });
          if (oe.threw()) H.fail("eq", "comparison threw " + oe.str());
          else {
            if (eq != exeq) H.fail("eq", std::string("operator== returned ") + (eq ? "true" : "false"));
            if (ne == eq) H.fail("ne", "operator!= is not the negation of ==");
            if (eq2 != eq) H.fail("eq-sym", "== not symmetric");
          }
          H.cls(exeq ? "eq:true" : "eq:false");
          bool hs = false;
          Outcome oh = attempt([&] { hs = sa.hasSameGrid(sb); });
          if (oh.threw() || hs != equalGrids) H.fail("hasSameGrid", "hasSameGrid wrong");
          // union / intersection
          std::optional<Sup> u, v, u2, v2;
          Outcome ou = attempt([&] { u.emplace(sa.calcUnion(sb)); });
          Outcome ov = attempt([&] { v.emplace(sa.calcIntersection(sb)); });
          Outcome ou2 = attempt([&] { u2.emplace(sb.calcUnion(sa)); });
          Outcome ov2 = attempt([&] { v2.emplace(sb.calcIntersection(sa)); });
          if (!equalGrids) {
            for (auto *o : {&ou, &ov, &ou2, &ov2})
              if (o->o != Out::BSPLINE_EXC || o->code != (int)ErrorCode::DIFFERING_GRIDS) H.fail("differing-grids", "union/intersection across different grids: " + o->str());
            H.cls("setop:refused");
          } else {
            expect_set(H, "union", ou, u ? &*u : nullptr, hull(ma, mb), g);
            expect_set(H, "intersection", ov, v ? &*v : nullptr, inter(ma, mb), g);
            expect_set(H, "union(b,a)", ou2, u2 ? &*u2 : nullptr, hull(ma, mb), g);
            expect_set(H, "intersection(b,a)", ov2, v2 ? &*v2 : nullptr, inter(ma, mb), g);
            if (u && u2 && !(*u == *u2)) H.fail("union-comm", "a|b != b|a by operator==");
            if (v && v2 && !(*v == *v2)) H.fail("inter-comm", "a&b != b&a by operator==");
            H.cls("setop:computed");
            if (a == b) {  // idempotence
              if (u && !(*u == sa)) H.fail("union-idem", "a|a != a");
              if (v && !(*v == sa)) H.fail("inter-idem", "a&a != a");
            }
          }
          // operands untouched
          if (pset(sa) != ma || pset(sb) != mb) H.fail("operand-changed", "an operand changed");
          H.end();
        }
    }
    // triples (same grid; b on the equal copy)
    for (Win a : W)
      for (Win b : W)
        for (Win c : W) {
          if (!H.take()) continue;
          H.begin(ns + "triple;" + wstr(a) + ";" + wstr(b) + ";" + wstr(c));
          if (!a.empty() && !b.empty() && !c.empty()) H.nontriv();
          Sup sa(g, a.s, a.e), sb(gcopy, b.s, b.e), sc(g, c.s, c.e);
          PSet ma = pset(a), mb = pset(b), mc = pset(c);
          std::optional<Sup> l, r, li, ri;
          Outcome o = attempt([&] {
            l.emplace(sa.calcUnion(sb).calcUnion(sc));
            r.emplace(sa.calcUnion(sb.calcUnion(sc)));
            li.emplace(sa.calcIntersection(sb).calcIntersection(sc));
            ri.emplace(sa.calcIntersection(sb.calcIntersection(sc)));
          });
          if (o.threw()) H.fail("triple", "threw " + o.str());
          else {
            PSet hu = hull(hull(ma, mb), mc), in3 = inter(inter(ma, mb), mc);
            if (pset(*l) != hu || pset(*r) != hu) H.fail("union-assoc", "(a|b)|c=" + sstr(pset(*l)) + " a|(b|c)=" + sstr(pset(*r)) + " expected " + sstr(hu));
            if (pset(*li) != in3 || pset(*ri) != in3) H.fail("inter-assoc", "(a&b)&c=" + sstr(pset(*li)) + " a&(b&c)=" + sstr(pset(*ri)) + " expected " + sstr(in3));
            if (!(*l == *r)) H.fail("union-assoc", "not equal by operator==");
            if (!(*li == *ri)) H.fail("inter-assoc", "not equal by operator==");
          }
          H.end();
        }
  }
}

int main(int argc, char **argv) {
  Harness H("C13", argc, argv);
  run(H);
  return H.finish();
}
