// E3 object-pool BFS, serving C10 (class invariants survive every history) and
// C14 (value semantics). State = a pool of live library objects (one Support
// slot, two Spline<1> slots, one Spline<OC> slot) reached by a history of public
// operations; a state is represented by the shortest history reaching it and
// re-created by replaying that history on a fresh pool. Breadth-first,
// level-synchronous, 16 worker threads, canonical key = per-slot (grid class,
// start, end) + copy-provenance partition; runs to fixpoint.
#include <bspline/integration/BilinearForm.h>
#include <bspline/integration/LinearForm.h>

#include <algorithm>
#include <atomic>
#include <mutex>
#include <thread>
#include <unordered_set>

#include "lib.h"
using namespace vf;
using namespace bspline::operators;
using S = vf::DefaultScalar;

enum Slot { U = 0, A = 1, B = 2, C = 3, NSLOT = 4 };
enum EffKind { COPY, MOVE, FRESH, MOVEDFROM, INPLACE };
struct Eff { EffKind k; int dst; int src; };

template <size_t OC>
struct Pool {
  size_t n, nh;
  Grid<S> G, Gc, Hg;
  Support<S> u;
  Spline<S, 1> a, b;
  Spline<S, OC> c;
  // fixed operands (never targets)
  Spline<S, 1> K1;   // on the equal copy Gc, window (0,2)
  Spline<S, 0> K0;   // on the equal copy Gc, whole grid
  Spline<S, 1> KH;   // on the other grid H, whole
  Pool(size_t n_, size_t nh_)
      : n(n_), nh(nh_), G(mkgrid<S>(grid_family("nonuni", n_))), Gc(mkgrid<S>(grid_family("nonuni", n_))), Hg(mkgrid<S>(grid_family("uni", nh_))),
        u(Support<S>::createEmpty(G)), a(G), b(G), c(G),
        K1(mkspline_p<S, 1>(Gc, Win{0, 2}, 3)), K0(mkspline_p<S, 0>(Gc, Win{0, n_}, n_)), KH(mkspline_p<S, 1>(Hg, Win{0, nh_}, (nh_ - 1) * 2 + 1)) {}
};

template <size_t OC>
struct Op {
  std::string name;
  std::function<void(Pool<OC> &)> f;
  std::vector<Eff> eff;
};

template <size_t o>
static Spline<S, o> gen(const Grid<S> &g, Win w, int variant = 1) {
  size_t K = w.nint() * (o + 1);
  return mkspline_p<S, o>(g, w, K ? K + variant : 0);
}

template <size_t OC>
static std::vector<Op<OC>> make_ops(size_t n, size_t nh) {
  using P = Pool<OC>;
  std::vector<Op<OC>> o;
  auto add = [&](const char *name, std::function<void(P &)> f, std::vector<Eff> eff) { o.push_back({name, f, eff}); };
  // ---- constructions -----------------------------------------------------------
  add("A:=S1(G,whole)", [=](P &p) { p.a = gen<1>(p.G, Win{0, n}); }, {{FRESH, A, -1}});
  add("A:=S1(G,(0,2))", [=](P &p) { p.a = gen<1>(p.G, Win{0, 2}, 2); }, {{FRESH, A, -1}});
  add("A:=S1(G,point(1,2))", [=](P &p) { p.a = gen<1>(p.G, Win{1, 2}); }, {{FRESH, A, -1}});
  add("A:=S1(G)", [=](P &p) { p.a = Spline<S, 1>(p.G); }, {{FRESH, A, -1}});
  add("A:=S1(H,whole)", [=](P &p) { p.a = gen<1>(p.Hg, Win{0, nh}); }, {{FRESH, A, -1}});
  add("A:=S1(Gc,(0,2))", [=](P &p) { p.a = gen<1>(p.Gc, Win{0, 2}); }, {{FRESH, A, -1}});
  add("B:=S1(G,(1,n))", [=](P &p) { p.b = gen<1>(p.G, Win{1, n}, 2); }, {{FRESH, B, -1}});
  add("B:=S1(H,whole)", [=](P &p) { p.b = gen<1>(p.Hg, Win{0, nh}, 2); }, {{FRESH, B, -1}});
  add("B:=S1(G,point(n-1,n))", [=](P &p) { p.b = gen<1>(p.G, Win{n - 1, n}); }, {{FRESH, B, -1}});
  add("C:=SC(G,whole)", [=](P &p) { p.c = gen<OC>(p.G, Win{0, n}); }, {{FRESH, C, -1}});
  add("C:=SC(G,(0,2))", [=](P &p) { p.c = gen<OC>(p.G, Win{0, 2}, 2); }, {{FRESH, C, -1}});
  add("C:=SC(H,whole)", [=](P &p) { p.c = gen<OC>(p.Hg, Win{0, nh}); }, {{FRESH, C, -1}});
  if (n >= 4) {  // the larger grid gets seeds that overlap partially, so that its state space is not isomorphic to the small one
    add("A:=S1(G,(1,3))", [=](P &p) { p.a = gen<1>(p.G, Win{1, 3}, 2); }, {{FRESH, A, -1}});
    add("B:=S1(G,(2,4))", [=](P &p) { p.b = gen<1>(p.G, Win{2, 4}); }, {{FRESH, B, -1}});
    add("C:=SC(G,(1,4))", [=](P &p) { p.c = gen<OC>(p.G, Win{1, 4}); }, {{FRESH, C, -1}});
    add("U:=Support(G,2,3)", [=](P &p) { p.u = Support<S>(p.G, 2, 3); }, {{FRESH, U, -1}});
  }
  add("U:=Support(G,0,n)", [=](P &p) { p.u = Support<S>(p.G, 0, n); }, {{FRESH, U, -1}});
  add("U:=Support(G,1,2)", [=](P &p) { p.u = Support<S>(p.G, 1, 2); }, {{FRESH, U, -1}});
  add("U:=createEmpty(H)", [=](P &p) { p.u = Support<S>::createEmpty(p.Hg); }, {{FRESH, U, -1}});
  add("U:=Support(Gc,0,2)", [=](P &p) { p.u = Support<S>(p.Gc, 0, 2); }, {{FRESH, U, -1}});
  add("U:=createWholeGrid(H)", [=](P &p) { p.u = Support<S>::createWholeGrid(p.Hg); }, {{FRESH, U, -1}});
  // ---- invalid constructions (must throw; nothing may change) -------------------
  add("A:=S1(G,whole,too-few-coefficients)", [=](P &p) { std::vector<std::array<S, 2>> cs(n - 2, {mki<S>(1), mki<S>(2)}); p.a = Spline<S, 1>(Support<S>(p.G, 0, n), cs); }, {{FRESH, A, -1}});
  add("A:=S1(G,empty,one-coefficient)", [=](P &p) { std::vector<std::array<S, 2>> cs(1, {mki<S>(1), mki<S>(2)}); p.a = Spline<S, 1>(Support<S>(p.G, 0, 0), cs); }, {{FRESH, A, -1}});
  add("C:=SC(G,point,one-coefficient)", [=](P &p) { std::vector<std::array<S, OC + 1>> cs(1); for (auto &x : cs[0]) x = mki<S>(1); p.c = Spline<S, OC>(Support<S>(p.G, 1, 2), cs); }, {{FRESH, C, -1}});
  add("U:=Support(G,2,1)", [=](P &p) { p.u = Support<S>(p.G, 2, 1); }, {{FRESH, U, -1}});
  add("U:=Support(G,0,n+1)", [=](P &p) { p.u = Support<S>(p.G, 0, n + 1); }, {{FRESH, U, -1}});
  // every shape of an inconsistent index pair: end 0 with start > 0, equal non-zero indices, start beyond the grid
  add("U:=Support(G,1,0)", [=](P &p) { p.u = Support<S>(p.G, 1, 0); }, {{FRESH, U, -1}});
  add("U:=Support(G,n+1,0)", [=](P &p) { p.u = Support<S>(p.G, n + 1, 0); }, {{FRESH, U, -1}});
  add("U:=Support(G,n,n)", [=](P &p) { p.u = Support<S>(p.G, n, n); }, {{FRESH, U, -1}});
  add("U:=Support(G,n+1,n+2)", [=](P &p) { p.u = Support<S>(p.G, n + 1, n + 2); }, {{FRESH, U, -1}});
  add("A:=S1(Support(G,2,0),{})", [=](P &p) { p.a = Spline<S, 1>(Support<S>(p.G, 2, 0), {}); }, {{FRESH, A, -1}});
  // ---- copies and moves ------------------------------------------------------------
  add("A=B", [](P &p) { p.a = p.b; }, {{COPY, A, B}});
  add("B=A", [](P &p) { p.b = p.a; }, {{COPY, B, A}});
  add("A=move(B)", [](P &p) { p.a = std::move(p.b); }, {{MOVE, A, B}});
  add("B=move(A)", [](P &p) { p.b = std::move(p.a); }, {{MOVE, B, A}});
  add("A=A", [](P &p) { auto &r = p.a; p.a = r; }, {{INPLACE, A, -1}});
  add("A=move(A)", [](P &p) { auto &r = p.a; p.a = std::move(r); }, {{INPLACE, A, -1}});
  add("{S1 t(move(A));}", [](P &p) { Spline<S, 1> t(std::move(p.a)); (void)t; }, {{MOVEDFROM, A, -1}});
  add("{S1 t(move(A)); A=move(t);}", [](P &p) { Spline<S, 1> t(std::move(p.a)); p.a = std::move(t); }, {{INPLACE, A, -1}});
  add("{S1 t(A); t*=2; t+=B;}", [](P &p) { Spline<S, 1> t(p.a); t *= mki<S>(2); t += p.b; }, {});
  add("{S1 t(B); A=t; t*=3;}", [](P &p) { Spline<S, 1> t(p.b); p.a = t; t *= mki<S>(3); }, {{COPY, A, B}});
  add("B=S1(A)", [](P &p) { p.b = Spline<S, 1>(p.a); }, {{COPY, B, A}});
  add("{SC t(move(C));}", [](P &p) { Spline<S, OC> t(std::move(p.c)); (void)t; }, {{MOVEDFROM, C, -1}});
  add("swap(A,B)", [](P &p) { std::swap(p.a, p.b); }, {{FRESH, A, -1}, {FRESH, B, -1}});
  add("B:=S1(H)", [=](P &p) { p.b = Spline<S, 1>(p.Hg); }, {{FRESH, B, -1}});
  add("{vector v{A,B,A}; v.insert(begin,v[1]); v.erase(begin+2); A=v[0]; B=move(v[2]);}", [](P &p) {
        std::vector<Spline<S, 1>> v{p.a, p.b, p.a};
        v.insert(v.begin(), v[1]);   // inserting an element of the vector itself (reallocation moves the others)
        v.erase(v.begin() + 2);      // {B, A, A}
        p.a = v[0];
        p.b = std::move(v[2]);
      }, {{COPY, A, B}, {FRESH, B, -1}});
  add("U=A.getSupport()", [](P &p) { p.u = p.a.getSupport(); }, {{COPY, U, A}});
  add("U=B.getSupport()", [](P &p) { p.u = p.b.getSupport(); }, {{COPY, U, B}});
  add("U=C.getSupport()", [](P &p) { p.u = p.c.getSupport(); }, {{COPY, U, C}});
  add("{Support t(move(U));}", [](P &p) { Support<S> t(std::move(p.u)); (void)t; }, {{MOVEDFROM, U, -1}});
  add("U=U", [](P &p) { auto &r = p.u; p.u = r; }, {{INPLACE, U, -1}});
  add("U=move(U)", [](P &p) { auto &r = p.u; p.u = std::move(r); }, {{INPLACE, U, -1}});
  add("{Support t(U); U=move(t);}", [](P &p) { Support<S> t(p.u); p.u = std::move(t); }, {{INPLACE, U, -1}});
  add("U=U.calcUnion(A.getSupport())", [](P &p) { p.u = p.u.calcUnion(p.a.getSupport()); }, {{FRESH, U, -1}});
  add("U=U.calcIntersection(B.getSupport())", [](P &p) { p.u = p.u.calcIntersection(p.b.getSupport()); }, {{FRESH, U, -1}});
  add("U=A.getSupport().calcUnion(B.getSupport())", [](P &p) { p.u = p.a.getSupport().calcUnion(p.b.getSupport()); }, {{FRESH, U, -1}});
  add("(void)U.at(99)", [](P &p) { (void)p.u.at(99); }, {});
  add("(void)U.absoluteFromRelative(99)", [](P &p) { (void)p.u.absoluteFromRelative(99); }, {});
  add("(void)U.front()", [](P &p) { (void)p.u.front(); (void)p.u.back(); }, {});
  // ---- cross-order assignment -----------------------------------------------------------
  if constexpr (OC < 1) {
    add("A=C(lower order)", [](P &p) { p.a = p.c; }, {{COPY, A, C}});
    add("B=C(lower order)", [](P &p) { p.b = p.c; }, {{COPY, B, C}});
    add("A+=C", [](P &p) { p.a += p.c; }, {{INPLACE, A, -1}});
    add("B-=C", [](P &p) { p.b -= p.c; }, {{INPLACE, B, -1}});
    add("A=A*C", [](P &p) { p.a = p.a * p.c; }, {{FRESH, A, -1}});
    add("B=C*B", [](P &p) { p.b = p.c * p.b; }, {{FRESH, B, -1}});
    add("C=Dx1*A", [](P &p) { p.c = Dx<1>{} * p.a; }, {{FRESH, C, -1}});
    add("A=X1*C", [](P &p) { p.a = X<1>{} * p.c; }, {{FRESH, A, -1}});
    add("A=V(C)*B", [](P &p) { p.a = SplineOperator{p.c} * p.b; }, {{FRESH, A, -1}});
    add("C=C+C", [](P &p) { p.c = p.c + p.c; }, {{FRESH, C, -1}});
  } else {
    add("C=A(lower order)", [](P &p) { p.c = p.a; }, {{COPY, C, A}});
    add("C=B(lower order)", [](P &p) { p.c = p.b; }, {{COPY, C, B}});
    add("C+=A", [](P &p) { p.c += p.a; }, {{INPLACE, C, -1}});
    add("C-=B", [](P &p) { p.c -= p.b; }, {{INPLACE, C, -1}});
    add("C=A*B", [](P &p) { p.c = p.a * p.b; }, {{FRESH, C, -1}});
    add("A=Dx1*C", [](P &p) { p.a = Dx<1>{} * p.c; }, {{FRESH, A, -1}});
    add("C=X1*A", [](P &p) { p.c = X<1>{} * p.a; }, {{FRESH, C, -1}});
    add("C=V(A)*B", [](P &p) { p.c = SplineOperator{p.a} * p.b; }, {{FRESH, C, -1}});
    add("C=C+A", [](P &p) { p.c = p.c + p.a; }, {{FRESH, C, -1}});
    add("C=A*K1", [](P &p) { p.c = p.a * p.K1; }, {{FRESH, C, -1}});
  }
  // ---- in-place arithmetic -------------------------------------------------------------------
  add("A+=B", [](P &p) { p.a += p.b; }, {{INPLACE, A, -1}});
  add("A-=B", [](P &p) { p.a -= p.b; }, {{INPLACE, A, -1}});
  add("B+=A", [](P &p) { p.b += p.a; }, {{INPLACE, B, -1}});
  add("A*=2", [](P &p) { p.a *= mki<S>(2); }, {{INPLACE, A, -1}});
  add("A/=3", [](P &p) { p.a /= mki<S>(3); }, {{INPLACE, A, -1}});
  add("B*=-5/7", [](P &p) { p.b *= mk<S>(mq(-5, 7)); }, {{INPLACE, B, -1}});
  add("C*=2", [](P &p) { p.c *= mki<S>(2); }, {{INPLACE, C, -1}});
  add("A+=K1(Gc)", [](P &p) { p.a += p.K1; }, {{INPLACE, A, -1}});
  add("B-=K0(Gc)", [](P &p) { p.b -= p.K0; }, {{INPLACE, B, -1}});
  add("A+=KH(H)", [](P &p) { p.a += p.KH; }, {{INPLACE, A, -1}});
  add("A-=A", [](P &p) { p.a -= p.a; }, {{INPLACE, A, -1}});
  add("A+=A", [](P &p) { p.a += p.a; }, {{INPLACE, A, -1}});
  // ---- results assigned back ------------------------------------------------------------------
  add("A=A+B", [](P &p) { p.a = p.a + p.b; }, {{FRESH, A, -1}});
  add("A=B-A", [](P &p) { p.a = p.b - p.a; }, {{FRESH, A, -1}});
  add("B=A+K1(Gc)", [](P &p) { p.b = p.a + p.K1; }, {{FRESH, B, -1}});
  add("B=A*K0(Gc)", [](P &p) { p.b = p.a * p.K0; }, {{FRESH, B, -1}});
  add("A=I*B", [](P &p) { p.a = IdentityOperator{} * p.b; }, {{FRESH, A, -1}});
  add("A=lincomb({2,3},{A,B})", [](P &p) { std::vector<S> cs{mki<S>(2), mki<S>(3)}; std::vector<Spline<S, 1>> v{p.a, p.b}; p.a = bspline::linearCombination(cs, v); }, {{FRESH, A, -1}});
  add("A=2*B", [](P &p) { p.a = mki<S>(2) * p.b; }, {{FRESH, A, -1}});
  add("B=-A", [](P &p) { p.b = -p.a; }, {{FRESH, B, -1}});
  add("A=B/3", [](P &p) { p.a = p.b / mki<S>(3); }, {{FRESH, A, -1}});
  add("A=(X1*Dx1-2)*A", [](P &p) { p.a = (X<1>{} * Dx<1>{} - 2) * p.a; }, {{FRESH, A, -1}});
  // ---- read-only calls (no target) ---------------------------------------------------------------
  add("(void)BilinearForm{}(A,B)", [](P &p) { (void)bspline::integration::BilinearForm{}(p.a, p.b); }, {});
  add("(void)LinearForm{V(B)}(A)", [](P &p) { (void)bspline::integration::LinearForm{SplineOperator{p.b}}(p.a); }, {});
  add("(void)A(x),isZero,checkOverlap,==", [](P &p) { (void)p.a(mki<S>(0)); (void)p.a.isZero(); (void)p.a.checkOverlap(p.b); (void)(p.a == p.b); (void)p.a.checkOverlap(p.c); }, {});
  add("(void)A.front()", [](P &p) { (void)p.a.front(); (void)p.a.back(); }, {});
  return o;
}

// ---- observation through the public API --------------------------------------------------------------
template <class SP>
static std::string observe_spline(const SP &s) {
  std::string r = dump(s);
  // evaluations are part of the observable state. The query order is deliberately non-monotone and ends
  // inside the second interval while it starts at the second grid point, so that any evaluation-order
  // dependent internal state (search hints, caches) left behind by one observation changes the next one.
  const auto &sup = s.getSupport();
  if (sup.getEndIndex() <= sup.getGrid().size() && sup.getStartIndex() < sup.getEndIndex() && s.getCoefficients().size() == sup.getEndIndex() - sup.getStartIndex() - 1) {
    std::vector<mpq_class> g;
    for (size_t i = sup.getStartIndex(); i < sup.getEndIndex(); i++) g.push_back(val(sup.getGrid()[i]));
    std::vector<mpq_class> q;
    for (size_t i = 1; i < g.size(); i++) q.push_back(g[i]);              // grid points ascending, starting at the second
    q.push_back(g[0]);
    for (size_t i = g.size() - 1; i >= 1; i--) {                            // interior points descending ...
      if (i == 1 && g.size() > 2) break;                                    // ... but not into the first interval
      q.push_back((g[i - 1] + 3 * g[i]) / 4);
      q.push_back((g[i - 1] + g[i]) / 2);
    }
    for (auto &x : q) r += " f(" + x.get_str() + ")=" + val(s(mk<S>(x))).get_str();
  }
  r += " grid=" + vstr(gridpts(sup.getGrid()));
  return r;
}
static std::string observe_support(const Support<S> &u) {
  return "Support[" + std::to_string(u.getStartIndex()) + "," + std::to_string(u.getEndIndex()) + ") grid=" + vstr(gridpts(u.getGrid()));
}

// invariants named by C10, checked through public accessors only
template <class SP>
static std::string check_spline_inv(const SP &s);
static std::string check_support_inv(const Support<S> &u) {
  std::string e;
  Outcome oc = attempt([&] {
    const auto &g = u.getGrid();
    size_t gs = g.size();
    if (gs < 2) e += "grid has fewer than two points; ";
    std::vector<mpq_class> pts;
    for (auto it = g.begin(); it != g.end(); ++it) pts.push_back(val(*it));
    if (pts.size() != gs) e += "grid iteration disagrees with size(); ";
    for (size_t i = 0; i + 1 < pts.size(); i++)
      if (!(pts[i] < pts[i + 1])) e += "grid not strictly increasing; ";
    size_t st = u.getStartIndex(), en = u.getEndIndex();
    if (st > en) e += "start > end; ";
    if (en > gs) e += "window exceeds the grid; ";
    if ((st == en) != u.empty()) e += "empty() disagrees with the indices; ";
    if (st <= en && u.size() != en - st) e += "size() disagrees with the indices; ";
    if (u.numberOfIntervals() != (en > st ? en - st - 1 : 0)) e += "numberOfIntervals() disagrees with the indices; ";
    if (u.containsIntervals() != (en > st + 1)) e += "containsIntervals() disagrees; ";
    if (st < en && en <= gs) {
      if (val(u.front()) != pts[st] || val(u.back()) != pts[en - 1]) e += "front/back disagree with the window; ";
      if ((size_t)(u.end() - u.begin()) != en - st) e += "iteration range disagrees; ";
    }
  });
  if (oc.threw()) e += "accessor threw " + oc.str() + "; ";
  return e;
}
template <class SP>
static std::string check_spline_inv(const SP &s) {
  std::string e;
  Outcome oc = attempt([&] {
    e += check_support_inv(s.getSupport());
    if (s.getCoefficients().size() != s.getSupport().numberOfIntervals()) e += "coefficient arrays (" + std::to_string(s.getCoefficients().size()) + ") != intervals (" + std::to_string(s.getSupport().numberOfIntervals()) + "); ";
    for (auto &a : s.getCoefficients())
      for (auto &x : a)
        if (poisoned(x)) e += "uninitialised coefficient; ";
  });
  if (oc.threw()) e += "accessor threw " + oc.str() + "; ";
  return e;
}

template <size_t OC>
struct Obs {
  std::string s[NSLOT], fixed, grids;
};
template <size_t OC>
static Obs<OC> observe(const Pool<OC> &p) {
  Obs<OC> o;
  o.s[U] = observe_support(p.u);
  o.s[A] = observe_spline(p.a);
  o.s[B] = observe_spline(p.b);
  o.s[C] = observe_spline(p.c);
  o.fixed = observe_spline(p.K1) + "|" + observe_spline(p.K0) + "|" + observe_spline(p.KH);
  o.grids = vstr(gridpts(p.G)) + vstr(gridpts(p.Gc)) + vstr(gridpts(p.Hg));
  return o;
}

template <size_t OC>
static char grid_class(const Pool<OC> &p, const Grid<S> &g) {
  auto d = g.getData().get();
  if (d == p.G.getData().get()) return 'G';
  if (d == p.Gc.getData().get()) return 'c';
  if (d == p.Hg.getData().get()) return 'H';
  return '?';
}

struct Prov {
  int id[NSLOT];
  int next;
  Prov() : next(NSLOT) { for (int i = 0; i < NSLOT; i++) id[i] = i; }
  void apply(const std::vector<Eff> &eff) {
    for (auto &e : eff) {
      switch (e.k) {
        case COPY: id[e.dst] = id[e.src]; break;
        case MOVE: id[e.dst] = id[e.src]; id[e.src] = next++; break;
        case FRESH: id[e.dst] = next++; break;
        case MOVEDFROM: id[e.dst] = next++; break;
        case INPLACE: break;
      }
    }
  }
  std::string canon() const {
    std::string r;
    int map[64], nm = 0;
    int seen[NSLOT];
    for (int i = 0; i < NSLOT; i++) {
      int lab = -1;
      for (int j = 0; j < i; j++)
        if (id[j] == id[i]) { lab = seen[j]; break; }
      if (lab < 0) lab = nm++;
      seen[i] = lab;
      r += (char)('0' + lab);
    }
    (void)map;
    return r;
  }
};

template <size_t OC>
static std::string state_key(const Pool<OC> &p, const Prov &pv) {
  std::string k;
  auto one = [&](const Support<S> &s) {
    k += grid_class(p, s.getGrid());
    k += std::to_string(s.getStartIndex()) + "," + std::to_string(s.getEndIndex()) + ";";
  };
  one(p.u);
  one(p.a.getSupport());
  one(p.b.getSupport());
  one(p.c.getSupport());
  return k + pv.canon();
}

struct TVio { std::string key, desc, msg; };
struct Cand { std::string key; std::vector<uint8_t> hist; };

template <size_t OC>
struct Search {
  Harness &H;
  std::string prop, tag;
  bool touch = false;
  size_t n, nh;
  std::vector<Op<OC>> ops;
  std::mutex mu;
  std::vector<TVio> vios;
  std::map<std::string, long> classes;
  long transitions = 0, nviol = 0;
  Search(Harness &h, const std::string &prop_, size_t n_, size_t nh_) : H(h), prop(prop_), n(n_), nh(nh_), ops(make_ops<OC>(n_, nh_)) { tag = "OC=" + std::to_string(OC) + ";n=" + std::to_string(n) + ";nh=" + std::to_string(nh); }

  std::string hist_desc(const std::vector<uint8_t> &h, int extra = -1) const {
    std::string d = tag;
    for (auto x : h) d += ";" + ops[x].name;
    if (extra >= 0) d += ";" + ops[extra].name;
    return d;
  }
  // replay a history on a fresh pool (throwing steps are part of the history and simply have no effect)
  void replay(Pool<OC> &p, Prov &pv, const std::vector<uint8_t> &h) const {
    for (auto x : h) {
      Outcome oc = attempt([&] { ops[x].f(p); });
      if (!oc.threw()) pv.apply(ops[x].eff);
    }
  }
  // execute one transition with all oracles; returns candidate key ("" if the step threw)
  std::string step(const std::vector<uint8_t> &h, int oi, std::vector<TVio> &tv, std::map<std::string, long> &cl) const {
    Pool<OC> p(n, nh);
    Prov pv;
    replay(p, pv, h);
    g_poison_reads = 0;
    Obs<OC> before = observe(p);
    const Op<OC> &op = ops[oi];
    std::string d = hist_desc(h, oi);
    strncpy(g_cur, d.c_str(), sizeof g_cur - 1);
    g_cur_idx = 0;
    Outcome oc = attempt([&] { op.f(p); });
    long poison = g_poison_reads;
    g_poison_reads = 0;
    auto fail = [&](const std::string &key, const std::string &msg) { tv.push_back({key, d, msg}); };
    if (oc.o == Out::OTHER_EXC) fail(prop == "C10" ? "foreign-exception" : "foreign-exception", "foreign exception: " + oc.what);
    cl[op.name + (oc.threw() ? ":threw" : ":value")]++;
    // ---- C10: every object valid after every transition, also after a throwing call
    if (prop == "C10") {
      std::string e;
      e = check_support_inv(p.u); if (!e.empty()) fail("invariant:U", "support slot: " + e);
      e = check_spline_inv(p.a); if (!e.empty()) fail("invariant:A", "spline A: " + e);
      e = check_spline_inv(p.b); if (!e.empty()) fail("invariant:B", "spline B: " + e);
      e = check_spline_inv(p.c); if (!e.empty()) fail("invariant:C", "spline C: " + e);
      e = check_spline_inv(p.K1) + check_spline_inv(p.K0) + check_spline_inv(p.KH); if (!e.empty()) fail("invariant:operand", "fixed operand: " + e);
      if (poison) fail("uninit", "operation read " + std::to_string(poison) + " uninitialised scalar(s)");
      // moved-from objects: interval-free, on the same grid
      if (!oc.threw())
        for (auto &ef : op.eff) {
          int src = ef.k == MOVE ? ef.src : ef.k == MOVEDFROM ? ef.dst : -1;
          if (src < 0) continue;
          Obs<OC> after = observe(p);
          auto gridpart = [](const std::string &s) { return s.substr(s.find(" grid=")); };
          bool intervalfree = src == U ? !p.u.containsIntervals() : src == A ? (!p.a.getSupport().containsIntervals() && p.a.getCoefficients().empty()) : src == B ? (!p.b.getSupport().containsIntervals() && p.b.getCoefficients().empty()) : (!p.c.getSupport().containsIntervals() && p.c.getCoefficients().empty());
          if (!intervalfree) fail("moved-from", "moved-from object is not interval-free: " + after.s[src]);
          if (gridpart(after.s[src]) != gridpart(before.s[src])) fail("moved-from", "moved-from object changed its grid");
        }
    }
    // ---- C14: nothing but the explicit target changes; a throwing call changes nothing
    if (prop == "C14") {
      Obs<OC> after = observe(p);
      bool target[NSLOT] = {false, false, false, false};
      if (!oc.threw())
        for (auto &ef : op.eff) {
          target[ef.dst] = true;
          if (ef.k == MOVE) target[ef.src] = true;
        }
      static const char *sn[] = {"U", "A", "B", "C"};
      for (int i = 0; i < NSLOT; i++)
        if (!target[i] && after.s[i] != before.s[i])
          fail(oc.threw() ? "changed-by-throwing-call" : "operand-changed", std::string("slot ") + sn[i] + " is not the target of '" + op.name + "' but changed from " + before.s[i] + " to " + after.s[i] + (oc.threw() ? " (the call threw " + oc.str() + ")" : ""));
      if (after.fixed != before.fixed) fail("operand-changed", "a fixed operand changed");
      if (after.grids != before.grids) fail("grid-modified", "a shared grid was modified");
      // self-assignment keeps the value
      if (!oc.threw() && (op.name == "A=A" || op.name == "U=U" || op.name == "{S1 t(move(A)); A=move(t);}" || op.name == "{Support t(U); U=move(t);}")) {
        int t = op.eff[0].dst;
        if (after.s[t] != before.s[t]) fail("self-assignment", "'" + op.name + "' changed the value");
      }
      // copies are equal to their source at the moment of the copy
      if (!oc.threw())
        for (auto &ef : op.eff)
          if (ef.k == COPY && ef.dst != U && ef.src != C && ef.dst != C && op.name.find("t*=") == std::string::npos && after.s[ef.dst] != before.s[ef.src]) fail("copy-differs", "copy differs from its source");
    }
    if (touch) {
      // C09 unit: USE every object after the transition through calls whose documented preconditions hold for any
      // valid object (a moved-from or otherwise reachable object that is internally inconsistent then trips the sanitizers)
      for (int rep = 0; rep < 1; rep++) {
        attempt([&] { (void)p.u.front(); (void)p.u.back(); for (auto it = p.u.begin(); it != p.u.end(); ++it) (void)val(*it); });
        auto use = [&](const auto &s) {
          attempt([&] {
            const auto &sup = s.getSupport();
            if (!sup.empty()) { (void)s(sup.front()); (void)s(sup.back()); (void)s((sup.front() + sup.back()) / mki<S>(2)); }
            (void)bspline::integration::LinearForm{}(s);
            (void)s.isZero();
            (void)(s + s);
            (void)(s * s);
          });
        };
        use(p.a); use(p.b); use(p.c);
      }
    }
    if (oc.threw()) return "";
    pv.apply(op.eff);
    return state_key(p, pv);
  }

  void run(size_t nthreads, long maxlevels) {
    std::unordered_set<std::string> visited;
    std::vector<std::vector<uint8_t>> frontier{{}};
    {
      Pool<OC> p(n, nh);
      Prov pv;
      visited.insert(state_key(p, pv));
    }
    long level = 0;
    std::vector<uint8_t> deepest;
    std::set<std::string> shapes[NSLOT];
    while (!frontier.empty() && level < maxlevels && !H.capped) {
      std::atomic<size_t> next{0};
      std::vector<std::vector<Cand>> tc(nthreads);
      std::vector<std::thread> th;
      for (size_t t = 0; t < nthreads; t++)
        th.emplace_back([&, t] {
          std::vector<TVio> tv;
          std::map<std::string, long> cl;
          long tr = 0;
          while (true) {
            size_t i = next.fetch_add(1);
            if (i >= frontier.size()) break;
            if (H.elapsed() > H.deadline_s) { H.capped = true; break; }
            for (size_t oi = 0; oi < ops.size(); oi++) {
              std::string k = step(frontier[i], (int)oi, tv, cl);
              tr++;
              if (!k.empty()) {
                std::vector<uint8_t> h2 = frontier[i];
                h2.push_back((uint8_t)oi);
                tc[t].push_back({k, h2});
              }
            }
          }
          std::lock_guard<std::mutex> lk(mu);
          transitions += tr;
          nviol += (long)tv.size();
          for (auto &v : tv)
            if (vios.size() < 60) vios.push_back(v);
          for (auto &c : cl) classes[c.first] += c.second;
        });
      for (auto &t : th) t.join();
      // deterministic merge: smallest history per new key
      std::vector<Cand> all;
      for (auto &v : tc) all.insert(all.end(), v.begin(), v.end());
      std::sort(all.begin(), all.end(), [](const Cand &x, const Cand &y) { return x.key != y.key ? x.key < y.key : x.hist < y.hist; });
      std::vector<std::vector<uint8_t>> nf;
      for (auto &c : all)
        if (visited.insert(c.key).second) nf.push_back(c.hist);
      std::sort(nf.begin(), nf.end());
      if (!nf.empty()) deepest = nf[nf.size() / 2];
      frontier.swap(nf);
      level++;
      if (H.args.count("verbose")) fprintf(stderr, "level %ld: frontier %zu visited %zu transitions %ld t=%.1fs\n", level, frontier.size(), visited.size(), transitions, H.elapsed());
      if (!frontier.empty()) H.counters["max:history_depth"] = std::max(H.counters["max:history_depth"], level);
    }
    bool fix = frontier.empty();
    H.counters["states"] += (long)visited.size();
    H.counters["transitions"] += transitions;
    H.counters["traces_validated_against_impl"] += transitions;
    H.counters[fix ? "searches_run_to_fixpoint" : "searches_stopped_by_depth_bound"] += 1;
    if (!fix && H.elapsed() > H.deadline_s) H.capped = true;
    H.evaluations += transitions;
    H.nontrivial += transitions;
    for (auto &c : classes) H.classes[c.first] += c.second;
    H.nviol += nviol;
    for (auto &v : vios)
      if (H.violations.size() < 60) H.violations.push_back({-1, v.key, v.desc, v.msg});
    // sample histories: the deepest representatives
    for (auto &k : visited) {
      // window shapes reached per slot (vacuity information)
      size_t pos = 0;
      for (int sidx = 0; sidx < NSLOT; sidx++) {
        size_t e = k.find(';', pos);
        shapes[sidx].insert(k.substr(pos, e - pos));
        pos = e + 1;
      }
    }
    for (int sidx = 0; sidx < NSLOT; sidx++) H.counters[std::string("shapes_slot_") + "UABC"[sidx] + "_" + tag] = (long)shapes[sidx].size();
    if (!deepest.empty()) H.samples.push_back("history of a state first reached at depth " + std::to_string(deepest.size()) + ": " + hist_desc(deepest));
    H.samples.push_back(tag + ": " + std::to_string(visited.size()) + " states, " + std::to_string(transitions) + " transitions, " + (fix ? "fixpoint after " : "stopped after ") + std::to_string(level) + " levels");
  }

  // replay one recorded history (driver: ./check replay)
  void replay_desc(const std::string &desc) {
    std::vector<std::string> parts;
    size_t pos = 0;
    while (pos <= desc.size()) {
      size_t e = desc.find(';', pos);
      if (e == std::string::npos) e = desc.size();
      parts.push_back(desc.substr(pos, e - pos));
      pos = e + 1;
    }
    std::vector<uint8_t> h;
    for (size_t i = 3; i < parts.size(); i++) {
      int f = -1;
      for (size_t oi = 0; oi < ops.size(); oi++)
        if (ops[oi].name == parts[i]) f = (int)oi;
      if (f < 0) { fprintf(stderr, "unknown operation '%s'\n", parts[i].c_str()); exit(3); }
      h.push_back((uint8_t)f);
    }
    if (h.empty()) return;
    int last = h.back();
    h.pop_back();
    std::vector<TVio> tv;
    std::map<std::string, long> cl;
    std::string k = step(h, last, tv, cl);
    fprintf(stderr, "[replay] %s -> key %s, %zu violation(s)\n", desc.c_str(), k.c_str(), tv.size());
    H.evaluations++;
    for (auto &v : tv) { H.nviol++; H.violations.push_back({-1, v.key, v.desc, v.msg}); fprintf(stderr, "  VIOLATION key=%s %s\n", v.key.c_str(), v.msg.c_str()); }
  }
};

int main(int argc, char **argv) {
  std::string prop = "C10";
  for (int i = 1; i + 1 < argc; i++)
    if (std::string(argv[i]) == "--prop") prop = argv[i + 1];
  Harness H(prop.c_str(), argc, argv);
  size_t nthreads = H.args.count("threads") ? atol(H.args["threads"].c_str()) : 16;
  bool th = H.thorough();
  size_t n = th ? 4 : 3, nh = th ? 3 : 2;
  if (H.args.count("desc") && H.only >= -1 && H.args["desc"].size()) {
    const std::string &d = H.args["desc"];
    if (d.rfind("OC=0", 0) == 0) { Search<0> s(H, prop, d.find("n=4") != std::string::npos ? 4 : 3, d.find("nh=3") != std::string::npos ? 3 : 2); s.replay_desc(d); }
    else { Search<2> s(H, prop, d.find("n=4") != std::string::npos ? 4 : 3, d.find("nh=3") != std::string::npos ? 3 : 2); s.replay_desc(d); }
    return H.finish();
  }
  (void)n; (void)nh;
  // quick: every history up to depth 5 on the small pool; thorough: the small pool to FIXPOINT and the
  // larger grids (G 4 points, H 3 points) up to depth 6
  long lv = H.args.count("levels") ? atol(H.args["levels"].c_str()) : (th ? 100000 : 5);
  bool touch = H.args.count("touch") > 0;
  { Search<0> s(H, prop, 3, 2); s.touch = touch; s.run(nthreads, lv); }
  { Search<2> s(H, prop, 3, 2); s.touch = touch; s.run(nthreads, lv); }
  if (th) {
    long lv2 = H.args.count("levels2") ? atol(H.args["levels2"].c_str()) : 7;
    { Search<0> s(H, prop, 4, 3); s.run(nthreads, lv2); }
    { Search<2> s(H, prop, 4, 3); s.run(nthreads, lv2); }
  }
  return H.finish();
}
